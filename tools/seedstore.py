#!/usr/bin/env python3
"""Copy verified seeded changes of a later round into /verif/seeded/ with a meta.json.
usage: seedstore.py <src-glob> <verify.json> <campaign.json> <round> <letter-map e.g. a=c,b=d>
Only changes whose four verification facts hold are stored."""
import os,sys,json,glob,re,shutil
VERIF=os.path.dirname(os.path.dirname(os.path.abspath(__file__)))
pattern,vfile,cfile,rnd,lm=sys.argv[1:6]
lmap=dict(x.split('=') for x in lm.split(','))
ver=json.load(open(vfile)); camp=json.load(open(cfile))
def section(text):
    # the paragraph(s) under a heading that speaks about what is needed to manifest
    m=re.search(r'^#+[^\n]*(needed|manifest|trigger)[^\n]*\n(.*?)(?=^#|\Z)',text,re.I|re.S|re.M)
    return re.sub(r'\s+',' ',m.group(2)).strip()[:700] if m else ''
stored=[]
for d in sorted(glob.glob(pattern)):
    prop,x=re.search(r'C\d\d',d).group(0),d.rstrip('/')[-1]
    sid=prop+x
    v=ver.get(sid,{})
    if not(v.get('applies') and v.get('suite_passes_with_patch') and v.get('demo_fails_with_patch') and v.get('demo_passes_without_patch')):
        print('skip (not verified)',sid); continue
    nid=prop+lmap[x]
    dst=os.path.join(VERIF,'seeded',nid)
    os.makedirs(dst,exist_ok=True)
    for f in ('patch.diff','demo_test.go','notes.md'):
        if os.path.exists(os.path.join(d,f)): shutil.copy(os.path.join(d,f),dst)
    notes=open(os.path.join(d,'notes.md')).read() if os.path.exists(os.path.join(d,'notes.md')) else ''
    title=notes.split('\n',1)[0].lstrip('# ').strip()
    title=re.sub(r'^(seed2-)?C\d\d\s*/\s*(change\s*)?[ab]\s*[—:-]+\s*','',title)
    c=camp.get(sid,{})
    det=[k for k,r in c.items() if isinstance(r,dict) and r.get('exit')==1]
    meta={'id':nid,'round':int(rnd),'property':prop,'breaks':title,'needs_to_manifest':section(notes) or title,
      'source':'independent sub-agent, given only the property text and a scratch worktree',
      'verified':{'worktree':'scratch worktree of /repo HEAD under /tmp (tools/seedverify.py)','patch_applies':True,'repository_suite_passes_with_change':True,
        'demo_fails_with_change':True,'demo_passes_without_change':True,
        'commands':['git apply patch.diff','go test -vet=off -count=1 ./...','cp demo_test.go jsonschema/zz_demo_test.go && go test -vet=off -count=1 ./jsonschema/','git apply -R patch.diff && go test -vet=off -count=1 ./jsonschema/']},
      'detected_by':det,'first_reported_case':{k:c[k].get('first_case','') for k in det}}
    json.dump(meta,open(os.path.join(dst,'meta.json'),'w'),indent=1)
    stored.append((nid,prop,title,det))
for s in stored: print(*s,sep=' | ')
