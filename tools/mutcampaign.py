#!/usr/bin/env python3
"""Run the mapped checks against every own mutant (mutants/NN-*.diff), each applied to a
scratch worktree of /repo. usage: mutcampaign.py <out.json> [tier] [only NN,...]"""
import os,subprocess,json,sys,glob
VERIF=os.path.dirname(os.path.dirname(os.path.abspath(__file__)))
ENV=dict(os.environ,GOFLAGS='-mod=mod',GOPROXY='off',GOSUMDB='off',GOTOOLCHAIN='local')
def sh(cmd,cwd=None,env=None):
    p=subprocess.run(cmd,shell=True,cwd=cwd,env=env or ENV,capture_output=True,text=True)
    return p.returncode,(p.stdout+p.stderr)
outfile=sys.argv[1]; tier=sys.argv[2] if len(sys.argv)>2 else 'quick'
only=set(sys.argv[3].split(',')) if len(sys.argv)>3 else None
mp=json.load(open(os.path.join(VERIF,'mutants/map.json')))
res=json.load(open(outfile)) if os.path.exists(outfile) else {}
for patch in sorted(glob.glob(os.path.join(VERIF,'mutants/[0-9][0-9]-*.diff'))):
    nn=os.path.basename(patch)[:2]
    if only and nn not in only: continue
    wt=f'/var/tmp/mutrun-{nn}'
    sh(f'git -C /repo worktree remove --force {wt}')
    rc,out=sh(f'git -C /repo worktree add -q --detach {wt} HEAD'); assert rc==0,out
    rc,out=sh(f'git apply {patch}',wt)
    r=res.setdefault(nn,{'patch':os.path.basename(patch)})
    if rc!=0:
        r['error']='patch does not apply'; sh(f'git -C /repo worktree remove --force {wt}'); continue
    rc,out=sh('go test -vet=off -count=1 ./...',wt); r['suite_passes']=rc==0
    for chk in mp[nn]:
        key=f'{chk}:{tier}'
        if key in r: continue
        root=f'/var/tmp/mutroot-{nn}-{chk}'
        sh(f'rm -rf {root}; mkdir -p {root}; cp -r {VERIF}/known_findings.json {VERIF}/known {root}/')
        env=dict(ENV,VERIF_REPO=wt,VERIF_ROOT_OVERRIDE=root)
        rc,out=sh(f'./run.sh {chk} {tier}',VERIF,env)
        case=[l.strip() for l in out.split('\n') if l.strip().startswith('case:')]
        summ=[l for l in out.split('\n') if l.startswith(f'{chk} {tier}:')]
        r[key]={'exit':rc,'first_case':(case[0][:300] if case else ''),'summary':(summ[0] if summ else out[-300:])}
        sh(f'rm -rf {root}')
        print(nn,key,rc,case[0][:140] if case else '',flush=True)
        json.dump(res,open(outfile,'w'),indent=1)
        if rc==1: break
    sh(f'git -C /repo worktree remove --force {wt}')
json.dump(res,open(outfile,'w'),indent=1)
