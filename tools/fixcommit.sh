#!/bin/bash
# fixcommit.sh <message-file>: run the unedited suite in /repo; commit the working-tree change only if it passes.
export GOFLAGS=-mod=mod GOPROXY=off GOSUMDB=off GOTOOLCHAIN=local
cd /repo || exit 2
[ -z "$(gofmt -l jsonschema)" ] || { echo "gofmt needed"; exit 1; }
if git diff --name-only | grep -q '_test.go\|testdata'; then echo "tests edited"; exit 1; fi
out=$(go test -vet=off -count=1 ./... 2>&1); rc=$?
echo "$out" | tail -5
[ $rc -eq 0 ] || { echo "SUITE FAILS - not committed"; exit 1; }
git commit -qa ${AMEND:+--amend} -F "$1" && git log --oneline | head -1
