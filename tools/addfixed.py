#!/usr/bin/env python3
"""addfixed.py <id> <property> <commit> <what>: record a repaired defect in known_findings.json"""
import json,sys,os
p=os.path.join(os.path.dirname(os.path.dirname(os.path.abspath(__file__))),'known_findings.json')
d=json.load(open(p))
i,prop,commit,what=sys.argv[1:5]
assert not any(f['id']==i for f in d['findings']), 'id already used: '+i
d['findings']=d['findings']+[{'id':i,'property':prop,'status':'fixed','commit':commit,'what':what}]
d['fixed']=[f"fixed: property={f['property']} {f['commit']} {f['what']}" for f in d['findings'] if f['status']=='fixed']
json.dump(d,open(p,'w'),indent=1,ensure_ascii=False)
