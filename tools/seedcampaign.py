#!/usr/bin/env python3
"""Run checks against every seeded change, each applied to its own scratch worktree of /repo
(never to /repo itself), and record which checks report a violation.
usage: seedcampaign.py <seeddir-glob> <out.json> [tier]"""
import os,subprocess,json,sys,glob,re
VERIF=os.path.dirname(os.path.dirname(os.path.abspath(__file__)))
ENV=dict(os.environ,GOFLAGS='-mod=mod',GOPROXY='off',GOSUMDB='off',GOTOOLCHAIN='local')
RELATED={'C01':['C01','C07'],'C02':['C02'],'C03':['C03'],'C04':['C04','C16'],'C05':['C05','C19'],'C06':['C06'],'C07':['C07','C01'],'C08':['C08','C12'],'C09':['C09','C16'],'C10':['C10','C03'],
 'C11':['C11','C12'],'C12':['C12','C11','C08'],'C13':['C13'],'C14':['C14','C06'],'C15':['C15'],'C16':['C16'],'C17':['C17','C03'],'C18':['C18'],'C19':['C19','C05'],'C20':['C20','C13']}
def sh(cmd,cwd=None,env=None,timeout=3600):
    p=subprocess.run(cmd,shell=True,cwd=cwd,env=env or ENV,capture_output=True,text=True,timeout=timeout)
    return p.returncode,(p.stdout+p.stderr)
pattern,outfile=sys.argv[1],sys.argv[2]
tier=sys.argv[3] if len(sys.argv)>3 else 'quick'
res=json.load(open(outfile)) if os.path.exists(outfile) else {}
for d in sorted(glob.glob(pattern)):
    prop,x=re.search(r'C\d\d',d).group(0),d.rstrip('/')[-1]
    sid=prop+x
    patch=os.path.join(d,'ported.diff') if os.path.exists(os.path.join(d,'ported.diff')) else os.path.join(d,'patch.diff')
    wt=f'/var/tmp/seedrun-{sid}'
    sh(f'git -C /repo worktree remove --force {wt}')
    rc,out=sh(f'git -C /repo worktree add -q --detach {wt} HEAD'); assert rc==0,out
    rc,out=sh(f'git apply {patch}',wt)
    if rc!=0:
        res[sid]={'error':'patch does not apply'}; sh(f'git -C /repo worktree remove --force {wt}'); continue
    r=res.setdefault(sid,{})
    for chk in RELATED[prop]:
        key=f'{chk}:{tier}'
        if key in r: continue
        root=f'/var/tmp/seedroot-{sid}-{chk}'
        sh(f'rm -rf {root}; mkdir -p {root}; cp -r {VERIF}/known_findings.json {VERIF}/known {root}/')
        env=dict(ENV,VERIF_REPO=wt,VERIF_ROOT_OVERRIDE=root)
        rc,out=sh(f'./run.sh {chk} {tier}',VERIF,env)
        viol=[l for l in out.split('\n') if l.startswith('VIOLATION')]
        case=[l.strip() for l in out.split('\n') if l.strip().startswith('case:')]
        summ=[l for l in out.split('\n') if l.startswith(f'{chk} {tier}:')]
        r[key]={'exit':rc,'violations_reported':len(viol),'first_case':(case[0][:400] if case else ''),'summary':(summ[0] if summ else out[-300:])}
        sh(f'rm -rf {root}')
        print(sid,key,rc,len(viol),case[0][:150] if case else '',flush=True)
        json.dump(res,open(outfile,'w'),indent=1)
        if rc==1: break   # detected; the remaining related checks are optional
    sh(f'git -C /repo worktree remove --force {wt}')
json.dump(res,open(outfile,'w'),indent=1)
