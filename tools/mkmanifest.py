#!/usr/bin/env python3
"""Regenerates MANIFEST.json from the table below (kept in one place so the manifest stays valid)."""
import json
props=[json.loads(l) for l in open('/verif/properties.jsonl')]
ENUM="bounded-exhaustive enumeration of inputs on the real implementation against a reference model"
C={
"C01":("exploration","every schema of G-schema/2020 (atoms, applicator forms, keyword pairs, family triples, nesting, $ref/$defs/$anchor, recursion) and of G-uneval is run through Unmarshal->Resolve->Validate for every pool instance and compared with the reference validator R1; the space is enumerated completely","trusted: R1 (passes all 2,012 official suite cases; agrees with python-jsonschema on the enumerated pools), meta-schema guard on generated documents; multipleOf only inside the exactness domain",ENUM,"§6 C01"),
"C02":("exploration","G-schema/07 under the draft-07 $schema x instance pool vs R1 in draft-07 mode; the $schema configuration axis (supported values give that draft's verdicts, unsupported ones must be refused by Validate for every instance); remote documents with/without $schema reached from every kind of position, 1 and 2 hops","trusted: R1 draft-07 mode (913 official cases), meta-schema guard; only draft-07 vocabulary is generated",ENUM+" over inputs x $schema configurations","§6 C02"),
"C03":("model_checking","reference topologies of G-uri: single-document worlds (root/embedded/nested resources with relative, absolute, urn $ids; anchors; 65 ref forms; probe in one or two resources; BaseURI empty/absolute; Loader nil/present) and multi-document universes in 13 shapes (chains, diamonds, cycles, aliases, back-references) x every fragment form per edge x $id modes x EVERY subset of failing loader URIs; Resolve error iff the oracle says so, verdict per marker, loader call log","trusted: R1 + R3 (RFC 3986 resolution written from the RFC, no net/url); relative references against a urn: base and relative references without an absolute base are 'either'","exhaustive enumeration of reference universes and of loader fault subsets (environment answers) executed on the real Resolve/Validate","§6 C03"),
"C17":("exploration","for both drafts a container with a uniquely marked subschema under every schema-valued / array-valued / map-valued keyword x a 27-key alphabet x indices, nested to depth 2, addressed by percent-encoded (and raw) RFC 6901 pointers; every invalid mutation of every pointer must make Resolve fail","trusted: pointer construction from an independent keyword table + RFC 6901/3986 encoders in internal/ref; R1 must agree with the constructed expectation",ENUM,"§6 C17"),
"C06":("model_checking","all dynamic-scope topologies of G-dyn (chains of <=4/5 resources x anchor kinds x hop kinds x final $dynamicRef forms x placement; two-scope roots) compared with R1's dynamic scope, plus exhaustive call histories on one Resolved (every 2-call history from every first call; every 3-call history on a subset), each call compared with a fresh Resolved","trusted: R1's dynamic-scope semantics (official dynamicRef.json; agrees with python-jsonschema on the G-dyn pool)","explicit enumeration of topologies and of Validate call histories on the real Resolved (states = history prefixes)","§6 C06"),
"C07":("exploration","all G-uneval combinator trees (depth<=2, thorough 3) next to unevaluatedProperties/unevaluatedItems x every object over {a,b,c}x{1,\"x\"} / every array of length<=3, compared with R1's annotation semantics","trusted: R1 annotation semantics (official suite incl. 188 unevaluated* cases; agrees with python-jsonschema on all 1.0M enumerated pairs)",ENUM,"§6 C07"),
"C11":("exploration","every ordered pair of the represented-value set (all Go representations, up to the stated deviation bound, of a 52-value JSON pool) is executed on jsonschema.Equal and compared with an independent canonical-form equality; triples of a subset check the equivalence laws directly","trusted: the reference canonical form R2 (two independent constructions that must agree), encoding/json, math/big","bounded-exhaustive enumeration of input pairs against a reference model","§6 C11"),
}
import os,sys
extra=json.load(open('/verif/tools/manifest_extra.json')) if os.path.exists('/verif/tools/manifest_extra.json') else {}
for k,v in extra.items(): C[k]=tuple(v)
checks=[]
for pid in sorted(C):
    cat,text,note,tech,ref=C[pid]
    checks.append({"property_id":pid,"quick_cmd":f"./run.sh {pid} quick","thorough_cmd":f"./run.sh {pid} thorough","evidence_file":f"evidence/{pid}.json","replay_cmd_template":f"./run.sh {pid} --replay {{path}}","engine":"vf","level_claimed":{"category":cat,"text":text,"design_ref":"DESIGN.md "+ref},"level_note":note,"technique":tech})
m={"version":1,"setup_cmd":"./setup.sh",
 "hooks":{"guard":"verif","enable":"go build -tags verif -overlay <overlay generated from /repo's current tree by cmd/instr>; no hook is committed in /repo","baseline_off_cmd":"cd /repo && GOFLAGS=-mod=mod GOPROXY=off GOSUMDB=off go test -vet=off -count=1 ./...","source_commits":[],"add_only":True},
 "engines":[{"name":"vf","path":"cmd/vf","serves_properties":sorted(C),"kind_free_text":"bounded-exhaustive explorer on the real implementation (inputs, call histories, environment answers, schedules) against reference models in internal/ref"}],
 "checks":checks,
 "not_applicable":[{"property_id":p["id"],"reason":"check under construction in this session (DESIGN.md §11 build order); not yet claimed"} for p in props if p["id"] not in C],
 "notes":"All exploration runs directly on the implementation built from /repo's current working tree. Fixes of genuine defects are 'fix:' commits in /repo, listed in known_findings.json."}
json.dump(m,open('/verif/MANIFEST.json','w'),indent=1)
print("claimed:",sorted(C))
