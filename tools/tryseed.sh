#!/bin/bash
# tryseed.sh <patch.diff> <Cxx> [tier]: run one check against a scratch worktree of /repo with the patch
# applied (never touches /repo's working tree, so it is safe next to other runs that build from /repo).
patch=$(readlink -f "$1"); id=$2; tier=${3:-quick}
wt=/var/tmp/tryseed-$$; root=/var/tmp/tryseed-root-$$
git -C /repo worktree add -q --detach $wt HEAD || exit 2
trap 'git -C /repo worktree remove --force '$wt' >/dev/null 2>&1; rm -rf '$root EXIT
(cd $wt && git apply "$patch") || { echo "patch does not apply" >&2; exit 2; }
mkdir -p $root && cp -r /verif/known_findings.json /verif/known $root/
cd /verif && VERIF_REPO=$wt VERIF_ROOT_OVERRIDE=$root ./run.sh "$id" "$tier" 2>&1 | grep -v '^WARNING conda' | cut -c1-400 | grep -E 'VIOLATION|KNOWN|HARNESS|violations=|case:' | head -${TRY_LINES:-4}
echo "exit=${PIPESTATUS[0]}"
