#!/bin/bash
# runall.sh <quick|thorough>: run every claimed check once, sequentially; print a summary.
tier=${1:-quick}
cd "$(dirname "$0")/.."
for c in $(jq -r '.checks[].property_id' MANIFEST.json); do
  s=$(date +%s)
  out=$(./run.sh $c $tier 2>&1); rc=$?
  e=$(date +%s)
  echo "$c rc=$rc $((e-s))s $(echo "$out" | grep -c '^KNOWN-FINDING') known $(echo "$out" | grep -c '^VIOLATION') viol :: $(echo "$out" | grep "^$c $tier" | cut -c1-140)"
done
