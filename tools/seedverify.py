#!/usr/bin/env python3
"""Verify the seeded changes from sub-agents in a scratch worktree of /repo (never in /repo itself):
patch applies on HEAD, the unedited suite passes with it, the demo fails with it and passes without it."""
import os,subprocess,json,sys,shutil,glob
ENV=dict(os.environ,GOFLAGS='-mod=mod',GOPROXY='off',GOSUMDB='off',GOTOOLCHAIN='local')
WT=os.environ.get('SV_WT','/tmp/sv-worktree')
def sh(cmd,cwd=None):
    p=subprocess.run(cmd,shell=True,cwd=cwd,env=ENV,capture_output=True,text=True)
    return p.returncode,(p.stdout+p.stderr)
if os.path.exists(WT): sh(f'git -C /repo worktree remove --force {WT}')
rc,out=sh(f'git -C /repo worktree add -q --detach {WT} HEAD'); assert rc==0,out
res={}
for d in sorted(glob.glob(sys.argv[1] if len(sys.argv)>1 else '/tmp/seed-C*/[ab]')):
    import re
    sid=re.search(r'C\d\d',d).group(0)+d[-1]
    patch=os.path.join(d,'ported.diff') if os.path.exists(os.path.join(d,'ported.diff')) else os.path.join(d,'patch.diff')
    r={'patch':os.path.basename(patch)}
    sh('git checkout -q -- . && git clean -fdq',WT)
    rc,out=sh(f'git apply {patch}',WT)
    r['applies']=rc==0
    if rc!=0:
        r['apply_error']=out.strip()[:200]; res[sid]=r; print(sid,r); continue
    rc,out=sh('go test -vet=off -count=1 ./...',WT); r['suite_passes_with_patch']=rc==0
    shutil.copy(os.path.join(d,'demo_test.go'),os.path.join(WT,'jsonschema','zz_demo_test.go'))
    rc,out=sh('go test -vet=off -count=1 ./jsonschema/',WT); r['demo_fails_with_patch']=rc!=0
    if rc==0:
        rc2,out2=sh('go test -vet=off -count=1 -race ./jsonschema/',WT); r['demo_fails_with_patch_race']=rc2!=0
    sh(f'git apply -R {patch}',WT)
    rc,out=sh('go test -vet=off -count=1 ./jsonschema/',WT); r['demo_passes_without_patch']=rc==0
    if rc!=0: r['demo_without_patch_output']=out[-400:]
    res[sid]=r; print(sid,r,flush=True)
sh(f'git -C /repo worktree remove --force {WT}')
json.dump(res,open(sys.argv[2] if len(sys.argv)>2 else '/tmp/seedverify.json','w'),indent=1)
