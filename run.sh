#!/bin/bash
# run.sh <Cxx> <quick|thorough> | run.sh <Cxx> --replay <file>
# Rebuilds the check binary against /repo's current working tree and runs one check.
export GOFLAGS=-mod=mod GOPROXY=off GOSUMDB=off GOTOOLCHAIN=local
cd "$(dirname "$0")" || exit 2
ROOT=$(pwd)
export VERIF_ROOT=${VERIF_ROOT_OVERRIDE:-$ROOT}
id=$1; shift
[ -n "$id" ] || { echo "usage: run.sh <Cxx> <quick|thorough>|--replay <file>" >&2; exit 2; }
W=$ROOT/.work/$id.$$
mkdir -p "$W" "$ROOT/evidence" "$ROOT/replays"
trap 'rm -rf "$W"' EXIT
REPO=${VERIF_REPO:-/repo}
MODFLAG=
if [ "$REPO" != /repo ]; then
  # run against a scratch copy of the repository (seeded changes): same module, replace redirected
  sed "s#=> /repo#=> $REPO#" go.mod > "$W/go.mod"; cp "$REPO/go.sum" "$W/go.sum"
  MODFLAG="-modfile=$W/go.mod"
else
  cp /repo/go.sum "$ROOT/go.sum" 2>/dev/null
fi
if ! go build $MODFLAG -o "$W/vf" ./cmd/vf 2>"$W/build.log"; then
  cat "$W/build.log" >&2
  echo "HARNESS-ERROR: build failed" >&2
  exit 2
fi
export VF_WORK=$W
# instrumented builds (generated from /repo's current tree, passed with -overlay; /repo is not touched)
build_instr() { # $1 = mode (env|sched), $2 = extra tags, $3 = output name, $4 = extra go flags
  local mode=$1 tags=$2 out=$3
  if ! go build -o "$W/instr" ./cmd/instr 2>"$W/instr.log"; then echo "instr build failed: $(head -c 400 "$W/instr.log")"; return 1; fi
  if ! "$W/instr" -src "$REPO/jsonschema" -mode "$mode" -out "$W/ov-$mode" 2>"$W/instr-$mode.log"; then echo "instrumentation failed: $(head -c 400 "$W/instr-$mode.log")"; return 1; fi
  if ! go build $MODFLAG -tags "$tags" -overlay "$W/ov-$mode/overlay.json" -o "$W/$out" ./cmd/vf 2>"$W/build-$mode.log"; then echo "instrumented build failed: $(head -c 600 "$W/build-$mode.log" | tr '\n' ' ')"; return 1; fi
  return 0
}
case "$id" in
  C12|C14|C16|C19)
    if msg=$(build_instr env verif vf-env); then export VF_ENV_BIN=$W/vf-env VF_ENV_REPORT=$W/ov-env/report.json; else export VF_ENV_BUILD_ERROR="$msg"; fi ;;
  C13)
    if msg=$(build_instr sched "verif sched" vf-sched); then export VF_SCHED_BIN=$W/vf-sched VF_SCHED_REPORT=$W/ov-sched/report.json; else export VF_SCHED_BUILD_ERROR="$msg"; fi
    if go build $MODFLAG -race -o "$W/vf-race" ./cmd/vf 2>"$W/build-race.log"; then export VF_RACE_BIN=$W/vf-race; else export VF_RACE_BUILD_ERROR="$(head -c 400 "$W/build-race.log")"; fi ;;
esac
"$W/vf" "$id" "$@"
