#!/bin/bash
# run.sh <Cxx> <quick|thorough> | run.sh <Cxx> --replay <file>
# Rebuilds the check binary against /repo's current working tree and runs one check.
export GOFLAGS=-mod=mod GOPROXY=off GOSUMDB=off GOTOOLCHAIN=local
cd "$(dirname "$0")" || exit 2
ROOT=$(pwd)
export VERIF_ROOT=${VERIF_ROOT_OVERRIDE:-$ROOT}
id=$1; shift
[ -n "$id" ] || { echo "usage: run.sh <Cxx> <quick|thorough>|--replay <file>" >&2; exit 2; }
W=$ROOT/.work/$id.$$
mkdir -p "$W" "$ROOT/evidence" "$ROOT/replays"
trap 'rm -rf "$W"' EXIT
cp /repo/go.sum "$ROOT/go.sum" 2>/dev/null
if ! go build -o "$W/vf" ./cmd/vf 2>"$W/build.log"; then
  cat "$W/build.log" >&2
  echo "HARNESS-ERROR: build failed" >&2
  exit 2
fi
export VF_WORK=$W
"$W/vf" "$id" "$@"
