module verif

go 1.23.0

require github.com/google/jsonschema-go v0.0.0

replace github.com/google/jsonschema-go => /repo
