// Package drive runs the real pipeline Unmarshal -> Resolve -> Validate and
// compares it with the reference validator R1 on an instance pool.
package drive

import (
	"bufio"
	"encoding/json"
	"fmt"
	"net/url"
	"os"
	"reflect"
	"sync"

	"github.com/google/jsonschema-go/jsonschema"

	"verif/internal/ev"
	"verif/internal/gen"
	"verif/internal/par"
	"verif/internal/ref"
)

// Inst is one pool instance in both worlds.
type Inst struct {
	Text  string
	Val   *ref.Val
	Plain any // canonical encoding/json decoding
}

// MkPool converts reference values into instances.
func MkPool(vals []*ref.Val) []Inst {
	out := make([]Inst, len(vals))
	for i, v := range vals {
		out[i] = Inst{Text: v.JSON(), Val: v, Plain: v.Plain()}
	}
	return out
}

// GoArrays returns the pool with every JSON array carried by a Go array ([n]any) instead of a
// slice, at every depth (the validator must treat the two kinds alike); only instances that
// contain an array are returned.
func GoArrays(pool []Inst) []Inst {
	var conv func(x any) (any, bool)
	conv = func(x any) (any, bool) {
		switch t := x.(type) {
		case []any:
			a := reflect.New(reflect.ArrayOf(len(t), reflect.TypeOf((*any)(nil)).Elem())).Elem()
			for i, e := range t {
				c, _ := conv(e)
				if c != nil {
					a.Index(i).Set(reflect.ValueOf(c))
				}
			}
			return a.Interface(), true
		case map[string]any:
			m, any := map[string]any{}, false
			for k, e := range t {
				c, ch := conv(e)
				m[k], any = c, any || ch
			}
			return m, any
		}
		return x, false
	}
	var out []Inst
	for _, in := range pool {
		if c, changed := conv(in.Plain); changed {
			out = append(out, Inst{Text: in.Text + " /*arrays as [n]any*/", Val: in.Val, Plain: c})
		}
	}
	return out
}

// StdPool is G-json.
func StdPool() []Inst { return MkPool(gen.Pool()) }

// Compile runs Unmarshal and Resolve on the real implementation.
// stage is "" on success, else "unmarshal", "resolve" or "panic".
func Compile(text string, opts *jsonschema.ResolveOptions) (rs *jsonschema.Resolved, stage string, err error) {
	var s jsonschema.Schema
	p := par.Call(func() {
		if e := json.Unmarshal([]byte(text), &s); e != nil {
			stage, err = "unmarshal", e
			return
		}
		r, e := s.Resolve(opts)
		if e != nil {
			stage, err = "resolve", e
			return
		}
		rs = r
	})
	if p != "" {
		return nil, "panic", fmt.Errorf("%s", firstLines(p, 12))
	}
	return rs, stage, err
}

// Verdict runs Validate; panic is non-empty if it panicked.
func Verdict(rs *jsonschema.Resolved, inst any) (valid bool, panic string) {
	p := par.Call(func() { valid = rs.Validate(inst) == nil })
	return valid, firstLines(p, 12)
}

func firstLines(s string, n int) string {
	cnt := 0
	for i := 0; i < len(s); i++ {
		if s[i] == '\n' {
			cnt++
			if cnt == n {
				return s[:i]
			}
		}
	}
	return s
}

// MapLoader serves documents from a retrieval-URI -> text map and logs requests.
type MapLoader struct {
	Docs map[string]string
	Fail map[string]bool
	Log  []string
}

func (l *MapLoader) Load(u *url.URL) (*jsonschema.Schema, error) {
	k := u.String()
	l.Log = append(l.Log, k)
	if l.Fail[k] {
		return nil, fmt.Errorf("injected loader fault for %s", k)
	}
	t, ok := l.Docs[k]
	if !ok {
		return nil, fmt.Errorf("no such document %s", k)
	}
	var s jsonschema.Schema
	if err := json.Unmarshal([]byte(t), &s); err != nil {
		return nil, err
	}
	return &s, nil
}

// Opt configures Against.
type Opt struct {
	Draft   ref.Draft         // draft assumed by R1 when the text has no $schema
	Prefix  string            // prepended to the case key
	BaseURI string            // retrieval URI of the root (ResolveOptions.BaseURI)
	Docs    map[string]string // loader documents by retrieval URI
	DocsKey string            // rendered into the case key when Docs is set
	// ValidateDefaults resolves with that option; a Resolve error is then not judged (a default
	// may legitimately be refused), but when Resolve succeeds every verdict must still be R1's
	ValidateDefaults bool
}

var (
	dumpMu sync.Mutex
	dumpW  *bufio.Writer
	dumpN  int
)

// dump writes one oracle record for the Python cross-check (crosscheck/py_oracle.py).
func dump(text string, o Opt, pool []Inst, verdicts []any) {
	path := os.Getenv("VERIF_DUMP_ORACLE")
	if path == "" {
		return
	}
	dumpMu.Lock()
	defer dumpMu.Unlock()
	if dumpW == nil {
		f, err := os.Create(path)
		if err != nil {
			return
		}
		dumpW = bufio.NewWriterSize(f, 1<<20)
	}
	insts := make([]string, len(pool))
	for i, in := range pool {
		insts[i] = in.Text
	}
	d := "2020-12"
	if o.Draft == ref.D07 {
		d = "draft-07"
	}
	b, _ := json.Marshal(map[string]any{"root": text, "base": o.BaseURI, "docs": o.Docs, "draft": d, "insts": insts, "r1": verdicts})
	dumpW.Write(b)
	dumpW.WriteByte('\n')
	dumpN++
	if dumpN%1000 == 0 {
		dumpW.Flush()
	}
}

// FlushDump flushes the cross-check dump, if any.
func FlushDump() {
	dumpMu.Lock()
	defer dumpMu.Unlock()
	if dumpW != nil {
		dumpW.Flush()
	}
}

// Against executes one schema text on the implementation and on R1 over the
// pool and reports every disagreement. It returns the number of pairs compared.
func Against(r *ev.Run, j par.Journal, text string, pool []Inst, o Opt) int {
	ktext := text
	if o.Docs != nil {
		ktext = text + " @" + o.BaseURI + " with " + o.DocsKey
	}
	if r.OnlyKey != "" && !keyHasPrefix(r.OnlyKey, o.Prefix+ktext+" ⊢ ") && r.OnlyKey != o.Prefix+ktext {
		return 0
	}
	u, err := ref.NewUniverseD(text, o.BaseURI, o.Docs, nil, o.Draft)
	if err != nil {
		r.Add("oracle_rejects", 1)
		return 0
	}
	if err := u.Closure(); err != nil {
		r.Add("oracle_rejects", 1)
		return 0
	}
	j.Begin(o.Prefix + ktext)
	defer j.End()
	var ropts *jsonschema.ResolveOptions
	if o.Docs != nil || o.BaseURI != "" {
		ml := &MapLoader{Docs: o.Docs}
		ropts = &jsonschema.ResolveOptions{BaseURI: o.BaseURI, Loader: ml.Load}
	}
	if o.ValidateDefaults {
		if ropts == nil {
			ropts = &jsonschema.ResolveOptions{}
		}
		ropts.ValidateDefaults = true
	}
	rs, stage, cerr := Compile(text, ropts)
	if stage == "resolve" && o.ValidateDefaults {
		r.Add("validate_defaults_refused", 1)
		return 0
	}
	if stage != "" {
		r.Fail(o.Prefix+ktext, map[string]any{"class": stage, "error": cerr.Error(), "want": "schema accepted (in-domain document)"})
		return 1
	}
	n := 0
	var dumped []any
	wantDump := os.Getenv("VERIF_DUMP_ORACLE") != ""
	if wantDump {
		defer func() { dump(text, o, pool, dumped) }()
	}
	for _, in := range pool {
		key := o.Prefix + ktext + " ⊢ " + in.Text
		if r.OnlyKey != "" && r.OnlyKey != key {
			continue
		}
		want := u.Validate(in.Val)
		if want.Undefined || want.Loop || want.Err != nil {
			r.Add("oracle_no_opinion", 1)
			if wantDump {
				dumped = append(dumped, nil)
			}
			continue
		}
		if wantDump {
			dumped = append(dumped, want.Valid)
		}
		got, p := Verdict(rs, in.Plain)
		n++
		if want.Touched > 0 {
			r.NontrivialN(1)
		}
		if p != "" {
			r.Fail(key, map[string]any{"class": "panic", "panic": p, "want_valid": want.Valid})
		} else if got != want.Valid {
			r.Fail(key, map[string]any{"class": "verdict", "schema": text, "instance": in.Text, "impl_valid": got, "spec_valid": want.Valid})
		}
	}
	r.Eval(n)
	return n
}

func keyHasPrefix(k, p string) bool { return len(k) >= len(p) && k[:len(p)] == p }
