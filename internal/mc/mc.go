// Package mc is the choice-tree explorer: a stateless depth-first search over
// executions of a closed harness body, with a bound on the number of deviations
// from the default choice (preemptions, non-canonical map orders, non-default
// hash families, loader faults).
package mc

import (
	"fmt"
	"hash/fnv"
)

// Point is one choice point of an execution.
type Point struct {
	Kind  string
	Site  int
	Arity int
	Free  bool // alternatives cost nothing (e.g. the running thread is not enabled)
}

// Tape feeds choices to one execution and records its choice points.
type Tape struct {
	prefix   []int
	expect   []Point
	Points   []Point
	Choices  []int
	Diverged error
}

// Choose returns the choice for the next point: from the prefix while it lasts,
// then 0. A mismatch with the recorded points of the parent execution, or an
// out-of-range choice, is a divergence: some nondeterminism is not owned.
func (t *Tape) Choose(kind string, site, arity int, free bool) int {
	i := len(t.Points)
	p := Point{kind, site, arity, free}
	c := 0
	if i < len(t.prefix) {
		c = t.prefix[i]
		if i < len(t.expect) {
			if e := t.expect[i]; e.Kind != kind || e.Site != site || e.Arity != arity {
				if t.Diverged == nil {
					t.Diverged = fmt.Errorf("replay diverged at point %d: recorded %+v, now %+v", i, e, p)
				}
			}
		}
		if c >= arity {
			if t.Diverged == nil {
				t.Diverged = fmt.Errorf("replay diverged at point %d: choice %d out of range (arity %d)", i, c, arity)
			}
			c = 0
		}
	}
	t.Points = append(t.Points, p)
	t.Choices = append(t.Choices, c)
	return c
}

// Perm asks for a permutation of n elements as n-1 successive choices among the
// remaining elements; all-zero choices give the identity.
func (t *Tape) Perm(site, n int) []int {
	if n > FullPermMax {
		// a large map: one choice among a fixed menu of orders instead of n-1 choices
		c := t.Choose("order-menu", site, len(menu), false)
		return menu[c](n)
	}
	rest := make([]int, n)
	for i := range rest {
		rest[i] = i
	}
	out := make([]int, 0, n)
	for len(rest) > 1 {
		c := t.Choose("order", site, len(rest), false)
		out = append(out, rest[c])
		rest = append(rest[:c], rest[c+1:]...)
	}
	return append(out, rest[0])
}

// Result of one execution, produced by the harness.
type Result struct {
	Outcome string // canonical rendering of everything observable
	Failure string // non-empty: the execution itself violates the oracle
	State   []string
}

// Explorer holds the search parameters and the accounting.
type Explorer struct {
	Bound      int
	Run        func(t *Tape) Result
	Shard      int // this worker explores level-1 subtrees j with j % NShards == Shard
	NShards    int
	MaxExec    int // safety cap (0 = none); hitting it is reported, never silent
	Executions int
	PointsSeen int
	MaxDepth   int
	Outcomes   map[string]int
	Failures   []Failure
	states     map[uint64]struct{}
	Capped     bool
	Divergence error
	OnExec     func(t *Tape, r Result)
}

// Failure is an execution that violates the oracle.
type Failure struct {
	Choices []int
	What    string
	Outcome string
}

// States returns the number of distinct states seen.
func (e *Explorer) States() int { return len(e.states) }

func cost(points []Point, choices []int, upto int) int {
	c := 0
	for i := 0; i < upto && i < len(choices); i++ {
		if choices[i] != 0 && !points[i].Free {
			c++
		}
	}
	return c
}

// Explore runs the default execution and every execution within the bound.
func (e *Explorer) Explore() {
	if e.Outcomes == nil {
		e.Outcomes = map[string]int{}
	}
	e.states = map[uint64]struct{}{}
	if e.NShards <= 0 {
		e.NShards = 1
	}
	e.explore(nil, nil, 0, true)
}

// explore runs one execution and recurses into its alternatives. pending means
// that the subtree has not been assigned to a shard yet: free alternatives
// (which often split the tree into a few huge halves) are followed by every
// shard, and the first costly alternative below them is dealt to one shard.
func (e *Explorer) explore(prefix []int, expect []Point, level int, pending bool) {
	if e.Divergence != nil || e.Capped {
		return
	}
	if e.MaxExec > 0 && e.Executions >= e.MaxExec {
		e.Capped = true
		return
	}
	t := &Tape{prefix: prefix, expect: expect}
	r := e.Run(t)
	if t.Diverged != nil {
		e.Divergence = t.Diverged
		return
	}
	countIt := !pending || e.Shard == 0 // executions shared by all shards are accounted by shard 0 only
	if countIt {
		e.Executions++
		e.PointsSeen += len(t.Points)
		if len(t.Points) > e.MaxDepth {
			e.MaxDepth = len(t.Points)
		}
		e.Outcomes[r.Outcome]++
		for _, s := range r.State {
			h := fnv.New64a()
			h.Write([]byte(s))
			e.states[h.Sum64()] = struct{}{}
		}
		if r.Failure != "" {
			e.Failures = append(e.Failures, Failure{append([]int(nil), t.Choices...), r.Failure, r.Outcome})
		}
		if e.OnExec != nil {
			e.OnExec(t, r)
		}
	}
	j := 0
	base := cost(t.Points, t.Choices, len(prefix))
	for i := len(prefix); i < len(t.Points); i++ {
		p := t.Points[i]
		if i > len(prefix) && t.Choices[i-1] != 0 && !t.Points[i-1].Free {
			base++
		}
		for alt := 1; alt < p.Arity; alt++ {
			c := base
			if !p.Free {
				c++
			}
			if c > e.Bound {
				continue
			}
			childPending := false
			if pending {
				if p.Free {
					childPending = true
				} else {
					j++
					if (j-1)%e.NShards != e.Shard {
						continue
					}
				}
			}
			np := append(append([]int(nil), t.Choices[:i]...), alt)
			e.explore(np, t.Points, level+1, childPending)
		}
	}
}

// Replay runs exactly one execution from a recorded choice list.
func Replay(run func(t *Tape) Result, choices []int) (Result, *Tape) {
	t := &Tape{prefix: choices}
	r := run(t)
	return r, t
}

// FullPermMax is the largest map for which every permutation is reachable;
// larger maps are iterated in one of the menu orders.
var FullPermMax = 4

var menu = []func(n int) []int{
	func(n int) []int { // identity (sorted)
		p := make([]int, n)
		for i := range p {
			p[i] = i
		}
		return p
	},
	func(n int) []int { // reverse
		p := make([]int, n)
		for i := range p {
			p[i] = n - 1 - i
		}
		return p
	},
	func(n int) []int { // rotate by one
		p := make([]int, n)
		for i := range p {
			p[i] = (i + 1) % n
		}
		return p
	},
	func(n int) []int { // rotate by half
		p := make([]int, n)
		for i := range p {
			p[i] = (i + n/2) % n
		}
		return p
	},
	func(n int) []int { // last element first
		p := make([]int, n)
		p[0] = n - 1
		for i := 1; i < n; i++ {
			p[i] = i - 1
		}
		return p
	},
	func(n int) []int { // interleave from both ends
		p := make([]int, 0, n)
		for lo, hi := 0, n-1; lo <= hi; lo, hi = lo+1, hi-1 {
			p = append(p, lo)
			if hi != lo {
				p = append(p, hi)
			}
		}
		return p
	},
}
