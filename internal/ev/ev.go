// Package ev is the reporting side of every check: counters, evidence file,
// known-finding matching, replay artefacts and the VIOLATION / KNOWN-FINDING lines.
package ev

import (
	"bufio"
	"encoding/json"
	"fmt"
	"hash/fnv"
	"os"
	"path/filepath"
	"sort"
	"strconv"
	"strings"
	"sync"
	"sync/atomic"
	"time"
)

// Root is the directory that holds MANIFEST.json, evidence/, replays/, known/.
var Root = func() string {
	if r := os.Getenv("VERIF_ROOT"); r != "" {
		return r
	}
	return "/verif"
}()

// Finding is one entry of known_findings.json.
type Finding struct {
	ID       string `json:"id"`
	Property string `json:"property"`
	Status   string `json:"status"` // "known" or "fixed"
	What     string `json:"what"`
	Cases    string `json:"cases,omitempty"`  // file with one case key per line (JSON string each)
	Commit   string `json:"commit,omitempty"` // for fixed entries
	Witness  any    `json:"witness,omitempty"`
}

type findingsFile struct {
	Findings []Finding `json:"findings"`
}

// Violation is one failing case that no known finding lists.
type Violation struct {
	Key    string `json:"case_key"`
	Detail any    `json:"detail"`
}

// Run collects what one invocation of one check covered.
type Run struct {
	ID    string
	Tier  string
	Level string
	Seed  int64

	start    time.Time
	deadline time.Time

	evaluations atomic.Int64
	nontrivial  atomic.Int64
	either      atomic.Int64

	mu         sync.Mutex
	distinct   map[uint64]struct{}
	distinctOn bool
	samples    []any
	sampleAt   int64
	extra      map[string]any
	assume     []string
	rule       string
	exhaustive bool
	notes      []string

	known      map[string]*knownSet // finding id -> set
	knownHits  map[string]int
	violations []Violation
	nviol      int
	emitCases  bool
	emitted    map[string]bool

	OnlyKey string // replay filter: when set, checks run only the case with this key
}

type knownSet struct {
	f     Finding
	cases map[string]bool
}

// New starts a run. level is the evidence level ("exploration", "model_checking").
func New(id, tier, level string) *Run {
	seed, _ := strconv.ParseInt(os.Getenv("VERIF_SEED"), 10, 64)
	r := &Run{ID: id, Tier: tier, Level: level, Seed: seed, start: time.Now(),
		distinct: map[uint64]struct{}{}, distinctOn: true, extra: map[string]any{},
		known: map[string]*knownSet{}, knownHits: map[string]int{}, exhaustive: true,
		emitted: map[string]bool{}}
	budget := 4 * time.Minute
	if tier == "thorough" {
		budget = 25 * time.Minute
	}
	if v := os.Getenv("VERIF_BUDGET_S"); v != "" {
		if n, err := strconv.Atoi(v); err == nil {
			budget = time.Duration(n) * time.Second
		}
	}
	r.deadline = r.start.Add(budget)
	r.emitCases = os.Getenv("VERIF_EMIT_CASES") == "1"
	r.loadKnown()
	return r
}

func (r *Run) loadKnown() {
	b, err := os.ReadFile(filepath.Join(Root, "known_findings.json"))
	if err != nil {
		return
	}
	var ff findingsFile
	if err := json.Unmarshal(b, &ff); err != nil {
		fmt.Fprintf(os.Stderr, "HARNESS-ERROR known_findings.json: %v\n", err)
		os.Exit(2)
	}
	for _, f := range ff.Findings {
		if f.Property != r.ID || f.Status != "known" {
			continue
		}
		ks := &knownSet{f: f, cases: map[string]bool{}}
		if f.Cases != "" {
			fh, err := os.Open(filepath.Join(Root, f.Cases))
			if err != nil {
				fmt.Fprintf(os.Stderr, "HARNESS-ERROR %s: %v\n", f.Cases, err)
				os.Exit(2)
			}
			sc := bufio.NewScanner(fh)
			sc.Buffer(make([]byte, 1<<20), 1<<26)
			for sc.Scan() {
				line := strings.TrimSpace(sc.Text())
				if line == "" || strings.HasPrefix(line, "#") {
					continue
				}
				var k string
				if err := json.Unmarshal([]byte(line), &k); err != nil {
					k = line
				}
				ks.cases[k] = true
			}
			fh.Close()
		}
		r.known[f.ID] = ks
	}
}

// Expired reports whether the internal deadline has passed. Checks stop
// enumerating (never fail) when it has, and the run is marked non-exhaustive.
func (r *Run) Expired() bool {
	if time.Now().After(r.deadline) {
		r.NotExhaustive("internal deadline reached")
		return true
	}
	return false
}

// NotExhaustive records why this run did not cover its whole space.
func (r *Run) NotExhaustive(why string) {
	r.mu.Lock()
	defer r.mu.Unlock()
	r.exhaustive = false
	for _, n := range r.notes {
		if n == why {
			return
		}
	}
	r.notes = append(r.notes, why)
}

// Eval counts n executed cases.
func (r *Run) Eval(n int) { r.evaluations.Add(int64(n)) }

// Either counts a case where the oracle accepts more than one outcome.
func (r *Run) Either() { r.either.Add(1) }

// Nontrivial counts one case that is non-trivial by the check's rule. Keys are
// de-duplicated through a 64-bit hash while the set is small enough to keep.
func (r *Run) Nontrivial(key string) {
	h := fnv.New64a()
	h.Write([]byte(key))
	k := h.Sum64()
	r.mu.Lock()
	if r.distinctOn {
		if _, ok := r.distinct[k]; !ok {
			r.distinct[k] = struct{}{}
			r.nontrivial.Add(1)
			if len(r.distinct) > 6_000_000 {
				// beyond this the set is dropped; generators emit distinct cases by construction
				r.distinctOn = false
				r.distinct = nil
			}
		}
	} else {
		r.nontrivial.Add(1)
	}
	r.mu.Unlock()
}

// NontrivialN counts n cases that are distinct by construction.
func (r *Run) NontrivialN(n int) { r.nontrivial.Add(int64(n)) }

// Sample keeps a few written-out cases (first ones and then at powers of ten).
func (r *Run) Sample(v any) {
	r.mu.Lock()
	defer r.mu.Unlock()
	r.sampleAt++
	n := r.sampleAt
	keep := n <= 3
	for p := int64(10); p <= n; p *= 10 {
		if n == p {
			keep = true
		}
	}
	if keep && len(r.samples) < 16 {
		r.samples = append(r.samples, v)
	}
}

// Set records an extra coverage key.
func (r *Run) Set(k string, v any) {
	r.mu.Lock()
	r.extra[k] = v
	r.mu.Unlock()
}

// Add adds n to an integer coverage key.
func (r *Run) Add(k string, n int64) {
	r.mu.Lock()
	cur, _ := r.extra[k].(int64)
	r.extra[k] = cur + n
	r.mu.Unlock()
}

// Hist increments extra[k][sub].
func (r *Run) Hist(k, sub string, n int64) {
	r.mu.Lock()
	m, _ := r.extra[k].(map[string]int64)
	if m == nil {
		m = map[string]int64{}
		r.extra[k] = m
	}
	m[sub] += n
	r.mu.Unlock()
}

func (r *Run) Rule(s string)      { r.rule = s }
func (r *Run) Assume(s ...string) { r.assume = append(r.assume, s...) }

// Fail reports a failing case. It is suppressed only if a known finding of this
// property lists exactly this case key.
func (r *Run) Fail(key string, detail any) {
	r.mu.Lock()
	defer r.mu.Unlock()
	if r.emitCases {
		if !r.emitted[key] {
			r.emitted[key] = true
			kb, _ := json.Marshal(key)
			db, _ := json.Marshal(detail)
			fmt.Printf("CASE %s\t%s\n", kb, db)
		}
		return
	}
	for id, ks := range r.known {
		if ks.cases[key] {
			r.knownHits[id]++
			return
		}
	}
	r.nviol++
	if len(r.violations) < 25 {
		r.violations = append(r.violations, Violation{key, detail})
	}
}

// Violations returns the number of unlisted failing cases so far.
func (r *Run) Violations() int {
	r.mu.Lock()
	defer r.mu.Unlock()
	return r.nviol
}

// Finish writes the evidence file, prints the result lines and returns the exit code.
func (r *Run) Finish() int {
	r.mu.Lock()
	defer r.mu.Unlock()
	cov := map[string]any{}
	for k, v := range r.extra {
		cov[k] = v
	}
	cov["evaluations"] = r.evaluations.Load()
	cov["distinct_nontrivial"] = r.nontrivial.Load()
	cov["rule"] = r.rule
	if len(r.samples) == 0 {
		r.samples = []any{"(no case executed)"}
	}
	cov["samples"] = r.samples
	cov["exhaustive"] = r.exhaustive
	if len(r.notes) > 0 {
		cov["not_exhaustive_because"] = r.notes
	}
	cov["either_cases"] = r.either.Load()
	kh := map[string]int{}
	for id, n := range r.knownHits {
		kh[id] = n
	}
	cov["known_finding_cases"] = kh
	if r.OnlyKey != "" {
		cov["replay_of"] = r.OnlyKey
	}
	evd := map[string]any{
		"property_id": r.ID, "tier": r.Tier, "seed": r.Seed, "level": r.Level,
		"coverage": cov, "assumptions": r.assume,
		"wall_s":     time.Since(r.start).Seconds(),
		"violations": r.nviol,
	}
	if r.assume == nil {
		evd["assumptions"] = []string{}
	}
	if r.OnlyKey == "" && !r.emitCases {
		os.MkdirAll(filepath.Join(Root, "evidence"), 0o755)
		b, _ := json.MarshalIndent(evd, "", " ")
		tmp := filepath.Join(Root, "evidence", r.ID+".json.tmp")
		if err := os.WriteFile(tmp, b, 0o644); err == nil {
			os.Rename(tmp, filepath.Join(Root, "evidence", r.ID+".json"))
		}
	}
	ids := make([]string, 0, len(r.knownHits))
	for id := range r.knownHits {
		ids = append(ids, id)
	}
	sort.Strings(ids)
	for _, id := range ids {
		fmt.Printf("KNOWN-FINDING: property=%s %s [%s, %d cases]\n", r.ID, r.known[id].f.What, id, r.knownHits[id])
	}
	fmt.Printf("%s %s: evaluations=%d nontrivial=%d exhaustive=%v violations=%d wall=%.1fs\n",
		r.ID, r.Tier, r.evaluations.Load(), r.nontrivial.Load(), r.exhaustive, r.nviol, time.Since(r.start).Seconds())
	if r.nviol == 0 {
		return 0
	}
	os.MkdirAll(filepath.Join(Root, "replays"), 0o755)
	for i, v := range r.violations {
		p := filepath.Join(Root, "replays", fmt.Sprintf("%s-%d.json", r.ID, i))
		b, _ := json.MarshalIndent(map[string]any{"property": r.ID, "case_key": v.Key, "detail": v.Detail, "tier": r.Tier}, "", " ")
		os.WriteFile(p, b, 0o644)
		if i < 5 {
			fmt.Printf("VIOLATION property=%s replay=%s\n", r.ID, p)
			fmt.Printf("  case: %s\n", trunc(v.Key, 600))
			db, _ := json.Marshal(v.Detail)
			fmt.Printf("  detail: %s\n", trunc(string(db), 800))
		}
	}
	if r.nviol > 5 {
		fmt.Printf("  (%d violating cases in total; first %d written to replays/)\n", r.nviol, len(r.violations))
	}
	return 1
}

func trunc(s string, n int) string {
	if len(s) <= n {
		return s
	}
	return s[:n] + "…"
}

// ReadReplayKey loads the case key from a replay file.
func ReadReplayKey(path string) (string, error) {
	b, err := os.ReadFile(path)
	if err != nil {
		return "", err
	}
	var v struct {
		Key string `json:"case_key"`
	}
	if err := json.Unmarshal(b, &v); err != nil {
		return "", err
	}
	return v.Key, nil
}
