// Package envrun runs exploration workers of the instrumented binaries (env,
// sched) as separate processes (their hooks are process-global) and merges
// their accounting into the check's evidence.
package envrun

import (
	"bufio"
	"bytes"
	"encoding/json"
	"fmt"
	"os"
	"os/exec"
	"strings"
	"sync"

	"verif/internal/ev"
)

// WorkerResult is what one worker process prints (one JSON line prefixed "RESULT ").
type WorkerResult struct {
	Executions int            `json:"executions"`
	Points     int            `json:"points"`
	States     int            `json:"states"`
	MaxDepth   int            `json:"max_depth"`
	Outcomes   int            `json:"distinct_outcomes"`
	Scenarios  int            `json:"scenarios"`
	Bound      int            `json:"bound"`
	Capped     bool           `json:"capped"`
	Divergence string         `json:"divergence,omitempty"`
	Failures   []Failure      `json:"failures,omitempty"`
	Samples    []any          `json:"samples,omitempty"`
	Extra      map[string]any `json:"extra,omitempty"`
}

// Failure is one failing execution found by a worker.
type Failure struct {
	Key     string `json:"key"`
	Choices []int  `json:"choices,omitempty"`
	What    string `json:"what"`
}

// Available reports whether the instrumented binary for the kind ("ENV",
// "SCHED", "RACE") was built; otherwise why not.
func Available(kind string) (string, string) {
	bin := os.Getenv("VF_" + kind + "_BIN")
	if bin == "" {
		why := os.Getenv("VF_" + kind + "_BUILD_ERROR")
		if why == "" {
			why = "instrumented binary not built"
		}
		return "", why
	}
	return bin, ""
}

// Run starts nshards workers `bin worker <name> <tier> <shard> <nshards>` and merges the results.
func Run(r *ev.Run, bin, name string, nshards int, extraEnv ...string) (WorkerResult, error) {
	var mu sync.Mutex
	var total WorkerResult
	total.Extra = map[string]any{}
	var firstErr error
	var wg sync.WaitGroup
	for sh := 0; sh < nshards; sh++ {
		wg.Add(1)
		go func(sh int) {
			defer wg.Done()
			cmd := exec.Command(bin, "worker", name, r.Tier, fmt.Sprint(sh), fmt.Sprint(nshards))
			cmd.Env = append(append(os.Environ(), "VF_CHILD=1", "GOMAXPROCS=2"), extraEnv...)
			if r.OnlyKey != "" {
				cmd.Env = append(cmd.Env, "VF_ONLYKEY="+r.OnlyKey)
			}
			var stderr bytes.Buffer
			cmd.Stderr = &stderr
			out, err := cmd.Output()
			var res *WorkerResult
			sc := bufio.NewScanner(bytes.NewReader(out))
			sc.Buffer(make([]byte, 1<<20), 1<<28)
			for sc.Scan() {
				if l := sc.Text(); strings.HasPrefix(l, "RESULT ") {
					var w WorkerResult
					if json.Unmarshal([]byte(l[7:]), &w) == nil {
						res = &w
					}
				}
			}
			mu.Lock()
			defer mu.Unlock()
			if res == nil {
				if firstErr == nil {
					firstErr = fmt.Errorf("worker %s shard %d: %v: %s", name, sh, err, tail(stderr.String(), 1500))
				}
				return
			}
			total.Executions += res.Executions
			total.Points += res.Points
			total.States += res.States
			total.Scenarios += res.Scenarios
			if res.MaxDepth > total.MaxDepth {
				total.MaxDepth = res.MaxDepth
			}
			if res.Outcomes > total.Outcomes {
				total.Outcomes = res.Outcomes
			}
			total.Bound = res.Bound
			total.Capped = total.Capped || res.Capped
			if res.Divergence != "" && total.Divergence == "" {
				total.Divergence = res.Divergence
			}
			total.Failures = append(total.Failures, res.Failures...)
			if len(total.Samples) < 6 {
				total.Samples = append(total.Samples, res.Samples...)
			}
			for k, v := range res.Extra {
				if _, ok := total.Extra[k]; !ok {
					total.Extra[k] = v
				}
			}
		}(sh)
	}
	wg.Wait()
	return total, firstErr
}

func tail(s string, n int) string {
	if len(s) > n {
		return s[len(s)-n:]
	}
	return s
}

// Merge records a worker total in the evidence under a prefix and reports failures.
func Merge(r *ev.Run, prefix string, w WorkerResult) {
	r.Add("states", int64(w.States))
	r.Add("transitions", int64(w.Points))
	r.Add("traces_validated_against_impl", int64(w.Executions))
	r.Set(prefix+"_executions", w.Executions)
	r.Set(prefix+"_choice_points", w.Points)
	r.Set(prefix+"_states", w.States)
	r.Set(prefix+"_max_depth", w.MaxDepth)
	r.Set(prefix+"_scenarios", w.Scenarios)
	r.Set(prefix+"_completed_bound", w.Bound)
	r.Set(prefix+"_max_distinct_outcomes_per_scenario", w.Outcomes)
	for k, v := range w.Extra {
		r.Set(prefix+"_"+k, v)
	}
	r.Eval(w.Executions)
	r.NontrivialN(w.Executions)
	for _, s := range w.Samples {
		r.Sample(s)
	}
	if w.Capped {
		r.NotExhaustive(prefix + ": execution cap reached")
	}
	for _, f := range w.Failures {
		r.Fail(f.Key, map[string]any{"class": prefix, "what": f.What, "choices": f.Choices})
	}
}

// Explore is the common driver of the instrumented part of a check: it verifies
// instrumentation transparency, runs the named exploration worker on all
// shards and merges the result. When the instrumented binary could not be built
// from the current tree the exploration is skipped and the run is marked
// non-exhaustive (an inability of the harness is never turned into an alarm).
func Explore(r *ev.Run, kind, worker, prefix string, nshards int) {
	bin, why := Available(kind)
	if bin == "" {
		r.NotExhaustive(prefix + " exploration skipped: " + why)
		r.Set(prefix+"_instrumentation_skipped", why)
		return
	}
	if rep, err := os.ReadFile(os.Getenv("VF_" + kind + "_REPORT")); err == nil {
		var m map[string]any
		if json.Unmarshal(rep, &m) == nil {
			delete(m, "files")
			r.Set(prefix+"_instrumentor_report", m)
			if u, ok := m["unowned"].([]any); ok && len(u) > 0 {
				r.NotExhaustive(prefix + ": the instrumentor left nondeterminism sources unowned")
			}
		}
	}
	tr, err := Run(r, bin, "transparency", 1)
	if err != nil || len(tr.Failures) > 0 {
		fmt.Fprintf(os.Stderr, "HARNESS-ERROR instrumentation transparency: %v %v\n", err, tr.Failures)
		if len(tr.Failures) > 0 {
			// the instrumented build disagrees with the official suite: do not trust it
			r.NotExhaustive(prefix + " exploration skipped: instrumented build does not reproduce the official suite")
			return
		}
		r.NotExhaustive(prefix + " exploration skipped: " + err.Error())
		return
	}
	r.Set(prefix+"_transparency_cases", tr.Executions)
	w, err := Run(r, bin, worker, nshards)
	if err != nil {
		fmt.Fprintln(os.Stderr, "HARNESS-ERROR", err)
		os.Exit(2)
	}
	if w.Divergence != "" {
		fmt.Fprintln(os.Stderr, "HARNESS-ERROR nondeterminism not owned:", w.Divergence)
		os.Exit(2)
	}
	Merge(r, prefix, w)
}
