// Package sched is the cooperative scheduler for the instrumented (sched) build:
// every logical thread is a goroutine, exactly one of which runs at any time;
// at every scheduling point the explorer's tape decides who runs next.
package sched

import (
	"fmt"
	"runtime"
	"strings"

	"verif/internal/mc"
)

type thread struct {
	id      int
	wake    chan struct{}
	done    bool
	blocked func() bool
	body    func()
	Panic   string
}

type abortExec struct{}

// Exec is one controlled execution.
type Exec struct {
	tape     *mc.Tape
	threads  []*thread
	cur      *thread
	finished chan struct{}
	aborting bool
	Deadlock bool
	Horizon  bool
	steps    int
	maxSteps int
	Preempt  int
	// StateKey, if set, is sampled at every point to count distinct states.
	StateKey func() string
	States   []string
	lastSite []int
}

// Hooks are installed into the instrumented package by the caller.
type Hooks struct {
	Point func(site int)
	Block func(can func() bool)
	Spawn func(f func())
}

// Run executes the bodies as logical threads under the tape. install must set
// the package's hooks to the returned functions before Run starts the threads
// (it is called once, synchronously).
func Run(tape *mc.Tape, bodies []func(), maxSteps int, install func(h Hooks)) *Exec {
	e := &Exec{tape: tape, finished: make(chan struct{}), maxSteps: maxSteps}
	for i, b := range bodies {
		e.threads = append(e.threads, &thread{id: i, wake: make(chan struct{}), body: b})
	}
	e.lastSite = make([]int, len(bodies))
	install(Hooks{Point: e.point, Block: e.block, Spawn: e.spawn})
	for _, t := range e.threads {
		e.start(t)
	}
	// initial choice: who runs first (free)
	en := e.enabled(nil)
	c := tape.Choose("sched", -100, len(en), true)
	e.cur = en[c]
	e.cur.wake <- struct{}{}
	<-e.finished
	install(Hooks{})
	return e
}

func (e *Exec) start(t *thread) {
	go func() {
		<-t.wake
		defer func() {
			if r := recover(); r != nil {
				if _, ok := r.(abortExec); !ok {
					buf := make([]byte, 2048)
					buf = buf[:runtime.Stack(buf, false)]
					t.Panic = fmt.Sprintf("%v\n%s", r, firstLines(string(buf), 14))
				}
			}
			t.done = true
			e.next(t)
		}()
		if e.aborting {
			return
		}
		t.body()
	}()
}

func firstLines(s string, n int) string {
	ls := strings.SplitN(s, "\n", n+1)
	if len(ls) > n {
		ls = ls[:n]
	}
	return strings.Join(ls, "\n")
}

// enabled lists the runnable threads: the running one first (if given and
// runnable), then ascending ids.
func (e *Exec) enabled(running *thread) []*thread {
	var out []*thread
	if running != nil && !running.done && running.blocked == nil {
		out = append(out, running)
	}
	for _, t := range e.threads {
		if t == running || t.done {
			continue
		}
		if t.blocked != nil && !t.blocked() {
			continue
		}
		out = append(out, t)
	}
	return out
}

func (e *Exec) handoff(from, to *thread) {
	e.cur = to
	to.wake <- struct{}{}
	<-from.wake
	if e.aborting {
		panic(abortExec{})
	}
}

func (e *Exec) point(site int) {
	t := e.cur
	if e.aborting {
		panic(abortExec{})
	}
	e.steps++
	if e.maxSteps > 0 && e.steps > e.maxSteps {
		e.Horizon = true
		e.abortAll(t)
		panic(abortExec{})
	}
	e.lastSite[t.id] = site
	if e.StateKey != nil {
		e.States = append(e.States, fmt.Sprint(e.lastSite)+e.StateKey())
	}
	en := e.enabled(t)
	if len(en) <= 1 {
		return
	}
	c := e.tape.Choose("sched", site, len(en), false)
	if en[c] != t {
		e.Preempt++
		en[c].blocked = nil
		e.handoff(t, en[c])
	}
}

func (e *Exec) block(can func() bool) {
	t := e.cur
	if e.aborting {
		panic(abortExec{})
	}
	t.blocked = can
	en := e.enabled(nil)
	if len(en) == 0 {
		e.Deadlock = true
		e.abortAll(t)
		panic(abortExec{})
	}
	c := e.tape.Choose("sched", -101, len(en), true)
	en[c].blocked = nil
	e.handoff(t, en[c])
	t.blocked = nil
}

func (e *Exec) spawn(f func()) {
	t := &thread{id: len(e.threads), wake: make(chan struct{}), body: f}
	e.threads = append(e.threads, t)
	e.lastSite = append(e.lastSite, 0)
	e.start(t)
}

// next is called by a thread that has finished.
func (e *Exec) next(t *thread) {
	if e.aborting {
		// unwind the remaining threads one by one
		for _, o := range e.threads {
			if !o.done {
				e.cur = o
				o.wake <- struct{}{}
				return
			}
		}
		close(e.finished)
		return
	}
	en := e.enabled(nil)
	if len(en) == 0 {
		all := true
		for _, o := range e.threads {
			if !o.done {
				all = false
			}
		}
		if !all {
			e.Deadlock = true
			e.aborting = true
			e.next(t)
			return
		}
		close(e.finished)
		return
	}
	c := e.tape.Choose("sched", -102, len(en), true)
	en[c].blocked = nil
	e.cur = en[c]
	en[c].wake <- struct{}{}
}

// abortAll makes every other thread unwind; the caller then panics with abortExec itself.
func (e *Exec) abortAll(t *thread) {
	e.aborting = true
}

// Panics returns the panic of each thread ("" if none).
func (e *Exec) Panics() []string {
	out := make([]string, len(e.threads))
	for i, t := range e.threads {
		out[i] = t.Panic
	}
	return out
}

// Steps returns the number of scheduling points passed.
func (e *Exec) Steps() int { return e.steps }
