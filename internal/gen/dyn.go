package gen

import (
	"fmt"
	"sort"
	"strings"
)

// Universe is a root document plus loader documents and the instances that
// make the reached target observable.
type Universe struct {
	Root  string
	Base  string
	Docs  map[string]string
	Insts []string
	Kind  string
	Meta  map[string]int // generator coordinates (anchor kinds etc.), for selecting sub-families
}

// DocsKey renders the loader documents deterministically.
func (u *Universe) DocsKey() string {
	ks := make([]string, 0, len(u.Docs))
	for k := range u.Docs {
		ks = append(ks, k)
	}
	sort.Strings(ks)
	var b strings.Builder
	for i, k := range ks {
		if i > 0 {
			b.WriteByte(' ')
		}
		b.WriteString(k[strings.LastIndex(k, "/")+1:])
		b.WriteByte('=')
		b.WriteString(u.Docs[k])
	}
	return b.String()
}

var anchorKinds = []string{`"$dynamicAnchor":"n",`, `"$anchor":"n",`, ``}

func wrapInst(v string, depth int) string {
	return strings.Repeat("[", depth) + v + strings.Repeat("]", depth)
}

// Dyn enumerates G-dyn: chains of k resources r0 (root) .. r(k-1); each declares
// in $defs/m a marker schema {const: 10+i} carrying $dynamicAnchor n, $anchor n
// or nothing; consecutive resources are connected by every hop kind; the last
// one holds the final $dynamicRef in every form. placement: 0 all embedded in
// the root's $defs, 1 all supplied by the loader, 2 alternating.
func Dyn(maxK int, fullK int, yield func(u *Universe)) {
	// "ptr" and "anch" enter the next resource through its interior ($defs/entry by
	// pointer / by $anchor) instead of through its root
	// "alias" enters it at $defs/entry too, but entry holds nothing besides the way on (a bare {"$ref": ...})
	allHops := []string{"ref", "items", "ptr", "alias", "allOf", "anch", "dynref", "anyOf"}
	for k := 1; k <= maxK; k++ {
		hops := allHops
		if k > fullK {
			hops = allHops[:2+max(0, fullK+2-k)] // fewer hop kinds for the longest chains
		}
		nk := 1
		for i := 0; i < k; i++ {
			nk *= 3
		}
		nh := 1
		for i := 0; i < k-1; i++ {
			nh *= len(hops)
		}
		for kinds := 0; kinds < nk; kinds++ {
			kind := make([]int, k)
			x := kinds
			anyDyn := false
			for i := range kind {
				kind[i] = x % 3
				x /= 3
				if kind[i] == 0 {
					anyDyn = true
				}
			}
			_ = anyDyn
			for hv := 0; hv < nh; hv++ {
				hop := make([]int, k-1)
				y := hv
				depth := 0
				for i := range hop {
					hop[i] = y % len(hops)
					y /= len(hops)
					if hops[hop[i]] == "items" {
						depth++
					}
				}
				// final forms
				var finals []string
				if kind[k-1] != 2 {
					finals = append(finals, "#n")
				}
				finals = append(finals, "#/$defs/m")
				for j := 0; j < k; j++ {
					if kind[j] != 2 {
						finals = append(finals, fmt.Sprintf("r%d.json#n", j))
					}
					if j != k-1 && k <= 3 {
						finals = append(finals, fmt.Sprintf("r%d.json#/$defs/m", j))
					}
				}
				// an off-chain resource x.json, in both anchor kinds
				finals = append(finals, "x.json#n", "y.json#n")
				for _, fin := range finals {
					for placement := 0; placement < 3; placement++ {
						if k == 1 && placement > 0 && !strings.HasPrefix(fin, "x.") && !strings.HasPrefix(fin, "y.") {
							continue
						}
						if (k >= 4 || (k == fullK && fullK == 3)) && placement == 2 {
							continue
						}
						res := make([]string, k)
						for i := 0; i < k; i++ {
							var body []string
							body = append(body, fmt.Sprintf(`"$id":"http://h/r%d.json"`, i))
							var next string // the keyword that leaves this resource
							if i < k-1 {
								t := fmt.Sprintf("r%d.json", i+1)
								switch hops[hop[i]] {
								case "ref":
									next = `"$ref":"` + t + `"`
								case "dynref":
									next = `"$dynamicRef":"` + t + `"`
								case "allOf":
									next = `"allOf":[{"$ref":"` + t + `"}]`
								case "items":
									next = `"items":{"$ref":"` + t + `"}`
								case "anyOf":
									next = `"anyOf":[false,{"$ref":"` + t + `"}]`
								case "ptr", "alias":
									next = `"$ref":"` + t + `#/$defs/entry"`
								case "anch":
									next = `"$ref":"` + t + `#e"`
								}
							} else {
								next = `"$dynamicRef":"` + fin + `"`
							}
							defs := fmt.Sprintf(`"m":{%s"const":%d}`, anchorKinds[kind[i]], 10+i)
							if i > 0 && hops[hop[i-1]] == "alias" {
								defs += `,"entry":{` + next + `}`
							} else if i > 0 && (hops[hop[i-1]] == "ptr" || hops[hop[i-1]] == "anch") {
								// entered through its interior: the way on starts at $defs/entry
								defs += `,"entry":{"$anchor":"e",` + next + `}`
							} else {
								body = append(body, next)
							}
							res[i] = strings.Join(body, ",") + `,"$defs":{` + defs
						}
						docs := map[string]string{}
						extra := map[string]string{
							"x.json": `{"$id":"http://h/x.json","$defs":{"m":{"$dynamicAnchor":"n","const":77}}}`,
							"y.json": `{"$id":"http://h/y.json","$defs":{"m":{"$anchor":"n","const":78}}}`,
						}
						var embedded []string
						for i := 1; i < k; i++ {
							doc := "{" + res[i] + "}}"
							loader := placement == 1 || (placement == 2 && i%2 == 1)
							if loader {
								docs[fmt.Sprintf("http://h/r%d.json", i)] = doc
							} else {
								embedded = append(embedded, fmt.Sprintf(`"e%d":%s`, i, doc))
							}
						}
						for _, e := range []string{"x.json", "y.json"} {
							if strings.HasPrefix(fin, e) {
								if placement == 0 {
									embedded = append(embedded, `"`+e[:1]+`":`+extra[e])
								} else {
									docs["http://h/"+e] = extra[e]
								}
							}
						}
						root := "{" + res[0]
						if len(embedded) > 0 {
							root += "," + strings.Join(embedded, ",")
						}
						root += "}}"
						u := &Universe{Root: root, Base: "http://h/r0.json", Docs: docs, Kind: fmt.Sprintf("chain k=%d", k)}
						for i := 0; i < k; i++ {
							u.Insts = append(u.Insts, wrapInst(fmt.Sprint(10+i), depth))
						}
						u.Insts = append(u.Insts, wrapInst("77", depth), wrapInst("78", depth), wrapInst("99", depth))
						if depth > 0 {
							u.Insts = append(u.Insts, "10", wrapInst("10", depth+1))
						}
						yield(u)
					}
				}
			}
		}
	}
}

// DynTwoScope enumerates roots that reach one final resource f (holding
// $dynamicRef "#n") through two different resources a and b in one Validate
// call, under every combinator, with every anchor-kind assignment.
func DynTwoScope(yield func(u *Universe)) {
	combos := []struct{ name, tmpl string }{
		{"prefixItems", `"prefixItems":[{"$ref":"a.json"},{"$ref":"b.json"}]`},
		{"properties", `"properties":{"p":{"$ref":"a.json"},"q":{"$ref":"b.json"}}`},
		{"anyOf", `"anyOf":[{"$ref":"a.json"},{"$ref":"b.json"}]`},
		{"oneOf", `"oneOf":[{"$ref":"a.json"},{"$ref":"b.json"}]`},
		{"allOf", `"allOf":[{"$ref":"a.json"},{"$ref":"b.json"}]`},
		{"if-then", `"if":{"$ref":"a.json"},"then":{"$ref":"b.json"}`},
		{"if-else", `"if":{"$ref":"a.json"},"else":{"$ref":"b.json"}`},
		{"not-allOf", `"not":{"$ref":"a.json"},"allOf":[{"$ref":"b.json"}]`},
		{"contains-items", `"contains":{"$ref":"a.json"},"items":{"$ref":"b.json"}`},
		{"anyOf-not", `"anyOf":[{"not":{"$ref":"a.json"}},{"$ref":"b.json"}]`},
		{"dependentSchemas", `"dependentSchemas":{"p":{"$ref":"a.json"},"q":{"$ref":"b.json"}}`},
		{"additionalProperties", `"properties":{"p":{"$ref":"a.json"}},"additionalProperties":{"$ref":"b.json"}`},
	}
	vals := []string{"1", "2", "3", "4", "9"}
	for _, c := range combos {
		for kinds := 0; kinds < 81; kinds++ {
			ka, kb, kf, kr := kinds%3, kinds/3%3, kinds/9%3, kinds/27%3
			for pl := 0; pl < 6; pl++ {
				placement, fin := pl%2, "#n"
				if pl/2 == 1 {
					fin = "x.json#n" // the final reference starts in a resource that is never entered
				}
				// deep: the $dynamicRef sits one instance level down (under properties/v of f) and the
				// markers are containers, so that per-call memoisation keyed by (schema, value) is exercised
				deep := pl/2 == 2
				mk := func(n int) string {
					if deep {
						return fmt.Sprintf("[%d]", n)
					}
					return fmt.Sprint(n)
				}
				if kf == 2 && fin == "#n" {
					continue // "#n" would dangle in f
				}
				a := `{"$id":"http://h/a.json","$ref":"f.json","$defs":{"m":{` + anchorKinds[ka] + `"const":` + mk(1) + `}}}`
				b := `{"$id":"http://h/b.json","$ref":"f.json","$defs":{"m":{` + anchorKinds[kb] + `"const":` + mk(2) + `}}}`
				f := `{"$id":"http://h/f.json","$dynamicRef":"` + fin + `","$defs":{"m":{` + anchorKinds[kf] + `"const":` + mk(3) + `}}}`
				if deep {
					f = `{"$id":"http://h/f.json","properties":{"v":{"$dynamicRef":"` + fin + `"}},"$defs":{"m":{` + anchorKinds[kf] + `"const":` + mk(3) + `}}}`
				}
				x := `{"$id":"http://h/x.json","$defs":{"m":{"$dynamicAnchor":"n","const":9}}}`
				docs := map[string]string{}
				defs := `"m":{` + anchorKinds[kr] + `"const":` + mk(4) + `}`
				if placement == 0 {
					defs += `,"a":` + a + `,"b":` + b + `,"f":` + f
					if fin != "#n" {
						defs += `,"x":` + x
					}
				} else {
					docs["http://h/a.json"], docs["http://h/b.json"], docs["http://h/f.json"] = a, b, f
					if fin != "#n" {
						docs["http://h/x.json"] = x
					}
				}
				root := `{"$id":"http://h/root.json",` + c.tmpl + `,"$defs":{` + defs + `}}`
				u := &Universe{Root: root, Base: "http://h/root.json", Docs: docs, Kind: "two-scope " + c.name,
					Meta: map[string]int{"ka": ka, "kb": kb, "kf": kf, "kr": kr, "offchain": b2i(pl/2 == 1), "deep": b2i(deep), "placement": placement}}
				vs := vals
				if deep {
					vs = nil
					for _, v := range vals {
						vs = append(vs, `{"v":[`+v+`]}`)
					}
					vs = append(vs, `{"v":{"k":1}}`)
				}
				switch c.name {
				case "prefixItems", "contains-items":
					for _, x := range vs {
						for _, y := range vs {
							u.Insts = append(u.Insts, "["+x+","+y+"]")
						}
					}
				case "properties", "dependentSchemas", "additionalProperties":
					for _, x := range vs {
						for _, y := range vs {
							u.Insts = append(u.Insts, `{"p":`+x+`,"q":`+y+`}`)
						}
						u.Insts = append(u.Insts, `{"p":`+x+`}`, `{"q":`+x+`}`)
					}
				default:
					u.Insts = append(u.Insts, vs...)
				}
				yield(u)
			}
		}
	}
}

func b2i(b bool) int {
	if b {
		return 1
	}
	return 0
}

// DynExtra enumerates smaller families around $dynamicRef that the chain product does
// not contain: a static $ref naming a dynamic anchor, two different dynamic names in
// scope, anchors on resource roots with the recursive "tree" pattern, resources nested
// inside embedded resources, documents whose retrieval URI differs from their $id, and resources
// that are entered directly as the subschema of an applicator after a sibling was evaluated.
func DynExtra(yield func(u *Universe)) {
	// A/B: chains of k resources joined by plain $ref, anchor kinds over four values, final in several forms
	kinds4 := []string{`"$dynamicAnchor":"n",`, `"$anchor":"n",`, ``, `"$dynamicAnchor":"k",`}
	for k := 2; k <= 3; k++ {
		total := 1
		for i := 0; i < k; i++ {
			total *= 4
		}
		for kv := 0; kv < total; kv++ {
			kind := make([]int, k)
			x := kv
			for i := range kind {
				kind[i] = x % 4
				x /= 4
			}
			finals := []string{`"$dynamicRef":"#n"`, `"$dynamicRef":"#k"`, `"$ref":"#n"`, `"$ref":"#k"`, `"$ref":"r0.json#n"`, `"$dynamicRef":"r0.json#k"`, `"allOf":[{"$ref":"#n"},{"$dynamicRef":"#n"}]`,
				// the anchor name percent-encoded in the reference (the same name once decoded)
				`"$dynamicRef":"#%6E"`, `"$dynamicRef":"r0.json#%6e"`, `"$ref":"#%6E"`}
			for _, fin := range finals {
				for placement := 0; placement < 2; placement++ {
					res := make([]string, k)
					for i := 0; i < k; i++ {
						next := fin
						if i < k-1 {
							next = fmt.Sprintf(`"$ref":"r%d.json"`, i+1)
						}
						// a second marker under the other name, so that a scan that ignores the name picks it
						other := fmt.Sprintf(`,"o":{"$dynamicAnchor":"z","const":%d}`, 50+i)
						res[i] = fmt.Sprintf(`"$id":"http://h/r%d.json",%s,"$defs":{"m":{%s"const":%d}%s`, i, next, kinds4[kind[i]], 10+i, other)
					}
					docs := map[string]string{}
					var embedded []string
					for i := 1; i < k; i++ {
						doc := "{" + res[i] + "}}"
						if placement == 1 {
							docs[fmt.Sprintf("http://h/r%d.json", i)] = doc
						} else {
							embedded = append(embedded, fmt.Sprintf(`"e%d":%s`, i, doc))
						}
					}
					root := "{" + res[0]
					if len(embedded) > 0 {
						root += "," + strings.Join(embedded, ",")
					}
					root += "}}"
					u := &Universe{Root: root, Base: "http://h/r0.json", Docs: docs, Kind: fmt.Sprintf("names k=%d", k)}
					for i := 0; i < k; i++ {
						u.Insts = append(u.Insts, fmt.Sprint(10+i), fmt.Sprint(50+i))
					}
					u.Insts = append(u.Insts, "99")
					yield(u)
				}
			}
		}
	}
	// C: anchors on resource roots; the extensible-tree pattern, every anchor-kind assignment
	treeInsts := []string{`{"v":1}`, `{"kids":[]}`, `{"v":1,"kids":[{"v":2}]}`, `{"v":1,"kids":[{"kids":[]}]}`, `{"v":1,"kids":[{"v":1,"kids":[{"v":"x"}]}]}`, `{"v":1,"kids":[{"v":1,"kids":[{"kids":[{"v":1}]}]}]}`, `1`, `{"v":1,"kids":[1]}`, `{"v":1,"extra":1}`, `{"v":1,"kids":[{"v":1,"extra":1}]}`}
	rootKinds := []string{`"$dynamicAnchor":"n",`, `"$anchor":"n",`, ``}
	for ks := 0; ks < 3; ks++ {
		for kt := 0; kt < 3; kt++ {
			for _, fin := range []string{"#n", "tree.json#n", "#"} {
				if (kt == 2 && fin != "#") || (fin == "#n" && kt == 2) {
					continue
				}
				for _, strictExtra := range []string{`"required":["v"]`, `"required":["v"],"unevaluatedProperties":false`, `"properties":{"v":{"maximum":1}}`} {
					for placement := 0; placement < 2; placement++ {
						tree := `{"$id":"http://h/tree.json",` + rootKinds[kt] + `"type":"object","properties":{"v":{"type":"integer"},"kids":{"type":"array","items":{"$dynamicRef":"` + fin + `"}}}}`
						strict := `"$id":"http://h/strict.json",` + rootKinds[ks] + `"$ref":"tree.json",` + strictExtra
						u := &Universe{Base: "http://h/strict.json", Docs: map[string]string{}, Kind: "tree", Insts: treeInsts}
						if placement == 0 {
							u.Root = `{` + strict + `,"$defs":{"t":` + tree + `}}`
						} else {
							u.Root = `{` + strict + `}`
							u.Docs["http://h/tree.json"] = tree
						}
						yield(u)
					}
				}
			}
		}
	}
	// C2: the same pattern with a second extension "loose" embedded in the root that carries a
	// default (Resolve with ValidateDefaults evaluates it starting inside loose.json)
	for ks := 0; ks < 3; ks++ {
		for kl := 0; kl < 3; kl++ {
			for _, def := range []string{`{"kids":[{"v":"a string"}]}`, `{"v":1,"kids":[{"kids":[]}]}`, `{"kids":[1]}`} {
				for placement := 0; placement < 2; placement++ {
					tree := `{"$id":"http://h/tree.json","$dynamicAnchor":"n","type":"object","properties":{"kids":{"type":"array","items":{"$dynamicRef":"#n"}}}}`
					loose := `{"$id":"loose.json",` + rootKinds[kl] + `"$ref":"tree.json","default":` + def + `}`
					strict := `"$id":"http://h/strict.json",` + rootKinds[ks] + `"$ref":"tree.json","properties":{"v":{"type":"integer"}}`
					u := &Universe{Base: "http://h/strict.json", Docs: map[string]string{}, Kind: "tree-default", Insts: treeInsts, Meta: map[string]int{"vd": 1}}
					if placement == 0 {
						u.Root = `{` + strict + `,"$defs":{"loose":` + loose + `,"t":` + tree + `}}`
					} else {
						u.Root = `{` + strict + `,"$defs":{"loose":` + loose + `}}`
						u.Docs["http://h/tree.json"] = tree
					}
					yield(u)
				}
			}
		}
	}
	// D: a resource nested inside an embedded resource, anchors at each level
	for kv := 0; kv < 27; kv++ {
		k0, k1, k2 := kv%3, kv/3%3, kv/9%3
		for _, fin := range []string{"#n", "in.json#n", "mid.json#n"} {
			for _, entry := range []string{`"$ref":"mid.json"`, `"$ref":"in.json"`, `"allOf":[{"$ref":"mid.json"}]`} {
				inner := `{"$id":"http://h/in.json","$dynamicRef":"` + fin + `","$defs":{"m":{` + anchorKinds[k2] + `"const":12}}}`
				mid := `{"$id":"http://h/mid.json","$ref":"in.json","$defs":{"m":{` + anchorKinds[k1] + `"const":11},"in":` + inner + `}}`
				root := `{"$id":"http://h/r0.json",` + entry + `,"$defs":{"m":{` + anchorKinds[k0] + `"const":10},"mid":` + mid + `}}`
				yield(&Universe{Root: root, Base: "http://h/r0.json", Docs: map[string]string{}, Kind: "nested", Insts: []string{"10", "11", "12", "99"}})
			}
		}
	}
	// E: retrieval URI differs from $id / no $id at all in a loaded document
	for kv := 0; kv < 9; kv++ {
		k0, k1 := kv%3, kv/3
		for _, id := range []string{`"$id":"http://k/o.json",`, ``, `"$id":"sub/o.json",`} {
			for _, fin := range []string{"#n", "p.json#n", "#/$defs/m"} {
				doc := `{` + id + `"$ref":"p.json","$defs":{"m":{` + anchorKinds[k1] + `"const":11},"p":{"$id":"p.json","$dynamicRef":"` + fin + `","$defs":{"m":{"$dynamicAnchor":"n","const":12}}}}}`
				root := `{"$id":"http://h/r0.json","$ref":"r1.json","$defs":{"m":{` + anchorKinds[k0] + `"const":10}}}`
				yield(&Universe{Root: root, Base: "http://h/r0.json", Docs: map[string]string{"http://h/r1.json": doc}, Kind: "retrieval", Insts: []string{"10", "11", "12", "99"}})
			}
		}
	}
	// E2: a loaded document in the middle of the chain declares draft-07: its $dynamicAnchor / $anchor are
	// unknown keywords there and declare nothing, so it never captures a $dynamicRef of a 2020-12 resource
	for kv := 0; kv < 9; kv++ {
		k0, k2 := kv%3, kv/3
		for _, midAnchor := range []string{`"$dynamicAnchor":"n",`, `"$anchor":"n",`, `"$id":"#n",`} {
			for _, fin := range []string{"#n", "r2.json#n", "#/$defs/m"} {
				mid := `{"$schema":"http://json-schema.org/draft-07/schema#","$id":"http://h/r1.json","allOf":[{"$ref":"r2.json"}],"definitions":{"m":{` + midAnchor + `"const":11}}}`
				last := `{"$schema":"https://json-schema.org/draft/2020-12/schema","$id":"http://h/r2.json","$dynamicRef":"` + fin + `","$defs":{"m":{` + anchorKinds[k2] + `"const":12}}}`
				root := `{"$id":"http://h/r0.json","$ref":"r1.json","$defs":{"m":{` + anchorKinds[k0] + `"const":10}}}`
				yield(&Universe{Root: root, Base: "http://h/r0.json", Docs: map[string]string{"http://h/r1.json": mid, "http://h/r2.json": last}, Kind: "mixed-draft middle", Insts: []string{"10", "11", "12", "99"}})
			}
		}
	}
	// F: resources entered DIRECTLY through an applicator (the next resource is the applicator's
	// subschema itself, with its own $id, not the target of a reference), after a sibling
	// subschema of the enclosing resource has been evaluated; 2 and 3 levels, every anchor kind,
	// the outermost level embedded in the root or supplied by the loader behind a $ref
	type direct struct {
		name string
		mk   func(inner string) string // keywords of the enclosing resource that hold the next one
		wrap func(inst string) string  // the instance location moves accordingly
	}
	same := func(x string) string { return x }
	directs := []direct{
		{"allOf-after-sibling", func(in string) string { return `"allOf":[{"type":["integer","object","array"]},` + in + `]` }, same},
		{"additionalProperties-after-allOf", func(in string) string { return `"allOf":[{"minProperties":1}],"additionalProperties":` + in }, func(x string) string { return `{"a":` + x + `}` }},
		{"items-after-anyOf", func(in string) string { return `"anyOf":[{"minItems":1}],"items":` + in }, func(x string) string { return `[` + x + `]` }},
		{"then-after-if", func(in string) string { return `"if":{"type":["integer","object","array"]},"then":` + in }, same},
		{"allOf-first", func(in string) string { return `"allOf":[` + in + `,{"type":["integer","object","array"]}]` }, same},
	}
	for k := 2; k <= 3; k++ {
		total := 1
		for i := 0; i < k; i++ {
			total *= 3
		}
		for kv := 0; kv < total; kv++ {
			for d1 := range directs {
				for d2 := range directs {
					if k == 2 && d2 > 0 {
						continue
					}
					for _, fin := range []string{"#n", "#/$defs/m", "r0.json#n", "r1.json#n"} {
						for _, loaded := range []bool{false, true} {
							x := kv
							kind := make([]int, k)
							for i := range kind {
								kind[i] = x % 3
								x /= 3
							}
							ds := []direct{directs[d1], directs[d2]}
							body := fmt.Sprintf(`{"$id":"http://h/r%d.json","$dynamicRef":%q,"$defs":{"m":{%s"const":%d}}}`, k-1, fin, anchorKinds[kind[k-1]], 10+k-1)
							wrap := same
							for i := k - 2; i >= 0; i-- {
								d := ds[i]
								body = fmt.Sprintf(`{"$id":"http://h/r%d.json",%s,"$defs":{"m":{%s"const":%d}}}`, i, d.mk(body), anchorKinds[kind[i]], 10+i)
								w0 := wrap
								wrap = func(s string) string { return d.wrap(w0(s)) }
							}
							u := &Universe{Root: body, Base: "http://h/r0.json", Docs: map[string]string{}, Kind: "direct " + ds[0].name}
							if loaded {
								u.Root = `{"$id":"http://h/top.json","$ref":"r0.json","$defs":{"m":{"$anchor":"n","const":9}}}`
								u.Base = "http://h/top.json"
								u.Docs["http://h/r0.json"] = body
							}
							for _, v := range []string{"9", "10", "11", "12", "99"} {
								u.Insts = append(u.Insts, wrap(v))
							}
							u.Insts = append(u.Insts, "10", `"s"`)
							yield(u)
						}
					}
				}
			}
		}
	}
}
