package gen

import (
	"fmt"
	"sort"
	"strings"
)

// Universe is a root document plus loader documents and the instances that
// make the reached target observable.
type Universe struct {
	Root  string
	Base  string
	Docs  map[string]string
	Insts []string
	Kind  string
	Meta  map[string]int // generator coordinates (anchor kinds etc.), for selecting sub-families
}

// DocsKey renders the loader documents deterministically.
func (u *Universe) DocsKey() string {
	ks := make([]string, 0, len(u.Docs))
	for k := range u.Docs {
		ks = append(ks, k)
	}
	sort.Strings(ks)
	var b strings.Builder
	for i, k := range ks {
		if i > 0 {
			b.WriteByte(' ')
		}
		b.WriteString(k[strings.LastIndex(k, "/")+1:])
		b.WriteByte('=')
		b.WriteString(u.Docs[k])
	}
	return b.String()
}

var anchorKinds = []string{`"$dynamicAnchor":"n",`, `"$anchor":"n",`, ``}

func wrapInst(v string, depth int) string {
	return strings.Repeat("[", depth) + v + strings.Repeat("]", depth)
}

// Dyn enumerates G-dyn: chains of k resources r0 (root) .. r(k-1); each declares
// in $defs/m a marker schema {const: 10+i} carrying $dynamicAnchor n, $anchor n
// or nothing; consecutive resources are connected by every hop kind; the last
// one holds the final $dynamicRef in every form. placement: 0 all embedded in
// the root's $defs, 1 all supplied by the loader, 2 alternating.
func Dyn(maxK int, fullK int, yield func(u *Universe)) {
	// "ptr" and "anch" enter the next resource through its interior ($defs/entry by
	// pointer / by $anchor) instead of through its root
	allHops := []string{"ref", "items", "ptr", "allOf", "anch", "dynref", "anyOf"}
	for k := 1; k <= maxK; k++ {
		hops := allHops
		if k > fullK {
			hops = allHops[:2+max(0, fullK+2-k)] // fewer hop kinds for the longest chains
		}
		nk := 1
		for i := 0; i < k; i++ {
			nk *= 3
		}
		nh := 1
		for i := 0; i < k-1; i++ {
			nh *= len(hops)
		}
		for kinds := 0; kinds < nk; kinds++ {
			kind := make([]int, k)
			x := kinds
			anyDyn := false
			for i := range kind {
				kind[i] = x % 3
				x /= 3
				if kind[i] == 0 {
					anyDyn = true
				}
			}
			_ = anyDyn
			for hv := 0; hv < nh; hv++ {
				hop := make([]int, k-1)
				y := hv
				depth := 0
				for i := range hop {
					hop[i] = y % len(hops)
					y /= len(hops)
					if hops[hop[i]] == "items" {
						depth++
					}
				}
				// final forms
				var finals []string
				if kind[k-1] != 2 {
					finals = append(finals, "#n")
				}
				finals = append(finals, "#/$defs/m")
				for j := 0; j < k; j++ {
					if kind[j] != 2 {
						finals = append(finals, fmt.Sprintf("r%d.json#n", j))
					}
					if j != k-1 && k <= 3 {
						finals = append(finals, fmt.Sprintf("r%d.json#/$defs/m", j))
					}
				}
				// an off-chain resource x.json, in both anchor kinds
				finals = append(finals, "x.json#n", "y.json#n")
				for _, fin := range finals {
					for placement := 0; placement < 3; placement++ {
						if k == 1 && placement > 0 && !strings.HasPrefix(fin, "x.") && !strings.HasPrefix(fin, "y.") {
							continue
						}
						if k >= 4 && placement == 2 {
							continue
						}
						res := make([]string, k)
						for i := 0; i < k; i++ {
							var body []string
							body = append(body, fmt.Sprintf(`"$id":"http://h/r%d.json"`, i))
							var next string // the keyword that leaves this resource
							if i < k-1 {
								t := fmt.Sprintf("r%d.json", i+1)
								switch hops[hop[i]] {
								case "ref":
									next = `"$ref":"` + t + `"`
								case "dynref":
									next = `"$dynamicRef":"` + t + `"`
								case "allOf":
									next = `"allOf":[{"$ref":"` + t + `"}]`
								case "items":
									next = `"items":{"$ref":"` + t + `"}`
								case "anyOf":
									next = `"anyOf":[false,{"$ref":"` + t + `"}]`
								case "ptr":
									next = `"$ref":"` + t + `#/$defs/entry"`
								case "anch":
									next = `"$ref":"` + t + `#e"`
								}
							} else {
								next = `"$dynamicRef":"` + fin + `"`
							}
							defs := fmt.Sprintf(`"m":{%s"const":%d}`, anchorKinds[kind[i]], 10+i)
							if i > 0 && (hops[hop[i-1]] == "ptr" || hops[hop[i-1]] == "anch") {
								// entered through its interior: the way on starts at $defs/entry
								defs += `,"entry":{"$anchor":"e",` + next + `}`
							} else {
								body = append(body, next)
							}
							res[i] = strings.Join(body, ",") + `,"$defs":{` + defs
						}
						docs := map[string]string{}
						extra := map[string]string{
							"x.json": `{"$id":"http://h/x.json","$defs":{"m":{"$dynamicAnchor":"n","const":77}}}`,
							"y.json": `{"$id":"http://h/y.json","$defs":{"m":{"$anchor":"n","const":78}}}`,
						}
						var embedded []string
						for i := 1; i < k; i++ {
							doc := "{" + res[i] + "}}"
							loader := placement == 1 || (placement == 2 && i%2 == 1)
							if loader {
								docs[fmt.Sprintf("http://h/r%d.json", i)] = doc
							} else {
								embedded = append(embedded, fmt.Sprintf(`"e%d":%s`, i, doc))
							}
						}
						for _, e := range []string{"x.json", "y.json"} {
							if strings.HasPrefix(fin, e) {
								if placement == 0 {
									embedded = append(embedded, `"`+e[:1]+`":`+extra[e])
								} else {
									docs["http://h/"+e] = extra[e]
								}
							}
						}
						root := "{" + res[0]
						if len(embedded) > 0 {
							root += "," + strings.Join(embedded, ",")
						}
						root += "}}"
						u := &Universe{Root: root, Base: "http://h/r0.json", Docs: docs, Kind: fmt.Sprintf("chain k=%d", k)}
						for i := 0; i < k; i++ {
							u.Insts = append(u.Insts, wrapInst(fmt.Sprint(10+i), depth))
						}
						u.Insts = append(u.Insts, wrapInst("77", depth), wrapInst("78", depth), wrapInst("99", depth))
						if depth > 0 {
							u.Insts = append(u.Insts, "10", wrapInst("10", depth+1))
						}
						yield(u)
					}
				}
			}
		}
	}
}

// DynTwoScope enumerates roots that reach one final resource f (holding
// $dynamicRef "#n") through two different resources a and b in one Validate
// call, under every combinator, with every anchor-kind assignment.
func DynTwoScope(yield func(u *Universe)) {
	combos := []struct{ name, tmpl string }{
		{"prefixItems", `"prefixItems":[{"$ref":"a.json"},{"$ref":"b.json"}]`},
		{"properties", `"properties":{"p":{"$ref":"a.json"},"q":{"$ref":"b.json"}}`},
		{"anyOf", `"anyOf":[{"$ref":"a.json"},{"$ref":"b.json"}]`},
		{"oneOf", `"oneOf":[{"$ref":"a.json"},{"$ref":"b.json"}]`},
		{"allOf", `"allOf":[{"$ref":"a.json"},{"$ref":"b.json"}]`},
		{"if-then", `"if":{"$ref":"a.json"},"then":{"$ref":"b.json"}`},
		{"if-else", `"if":{"$ref":"a.json"},"else":{"$ref":"b.json"}`},
		{"not-allOf", `"not":{"$ref":"a.json"},"allOf":[{"$ref":"b.json"}]`},
		{"contains-items", `"contains":{"$ref":"a.json"},"items":{"$ref":"b.json"}`},
		{"anyOf-not", `"anyOf":[{"not":{"$ref":"a.json"}},{"$ref":"b.json"}]`},
		{"dependentSchemas", `"dependentSchemas":{"p":{"$ref":"a.json"},"q":{"$ref":"b.json"}}`},
		{"additionalProperties", `"properties":{"p":{"$ref":"a.json"}},"additionalProperties":{"$ref":"b.json"}`},
	}
	vals := []string{"1", "2", "3", "4", "9"}
	for _, c := range combos {
		for kinds := 0; kinds < 81; kinds++ {
			ka, kb, kf, kr := kinds%3, kinds/3%3, kinds/9%3, kinds/27%3
			for pl := 0; pl < 6; pl++ {
				placement, fin := pl%2, "#n"
				if pl/2 == 1 {
					fin = "x.json#n" // the final reference starts in a resource that is never entered
				}
				// deep: the $dynamicRef sits one instance level down (under properties/v of f) and the
				// markers are containers, so that per-call memoisation keyed by (schema, value) is exercised
				deep := pl/2 == 2
				mk := func(n int) string {
					if deep {
						return fmt.Sprintf("[%d]", n)
					}
					return fmt.Sprint(n)
				}
				if kf == 2 && fin == "#n" {
					continue // "#n" would dangle in f
				}
				a := `{"$id":"http://h/a.json","$ref":"f.json","$defs":{"m":{` + anchorKinds[ka] + `"const":` + mk(1) + `}}}`
				b := `{"$id":"http://h/b.json","$ref":"f.json","$defs":{"m":{` + anchorKinds[kb] + `"const":` + mk(2) + `}}}`
				f := `{"$id":"http://h/f.json","$dynamicRef":"` + fin + `","$defs":{"m":{` + anchorKinds[kf] + `"const":` + mk(3) + `}}}`
				if deep {
					f = `{"$id":"http://h/f.json","properties":{"v":{"$dynamicRef":"` + fin + `"}},"$defs":{"m":{` + anchorKinds[kf] + `"const":` + mk(3) + `}}}`
				}
				x := `{"$id":"http://h/x.json","$defs":{"m":{"$dynamicAnchor":"n","const":9}}}`
				docs := map[string]string{}
				defs := `"m":{` + anchorKinds[kr] + `"const":` + mk(4) + `}`
				if placement == 0 {
					defs += `,"a":` + a + `,"b":` + b + `,"f":` + f
					if fin != "#n" {
						defs += `,"x":` + x
					}
				} else {
					docs["http://h/a.json"], docs["http://h/b.json"], docs["http://h/f.json"] = a, b, f
					if fin != "#n" {
						docs["http://h/x.json"] = x
					}
				}
				root := `{"$id":"http://h/root.json",` + c.tmpl + `,"$defs":{` + defs + `}}`
				u := &Universe{Root: root, Base: "http://h/root.json", Docs: docs, Kind: "two-scope " + c.name,
					Meta: map[string]int{"ka": ka, "kb": kb, "kf": kf, "kr": kr, "offchain": b2i(pl/2 == 1), "deep": b2i(deep), "placement": placement}}
				vs := vals
				if deep {
					vs = nil
					for _, v := range vals {
						vs = append(vs, `{"v":[`+v+`]}`)
					}
					vs = append(vs, `{"v":{"k":1}}`)
				}
				switch c.name {
				case "prefixItems", "contains-items":
					for _, x := range vs {
						for _, y := range vs {
							u.Insts = append(u.Insts, "["+x+","+y+"]")
						}
					}
				case "properties", "dependentSchemas", "additionalProperties":
					for _, x := range vs {
						for _, y := range vs {
							u.Insts = append(u.Insts, `{"p":`+x+`,"q":`+y+`}`)
						}
						u.Insts = append(u.Insts, `{"p":`+x+`}`, `{"q":`+x+`}`)
					}
				default:
					u.Insts = append(u.Insts, vs...)
				}
				yield(u)
			}
		}
	}
}

func b2i(b bool) int {
	if b {
		return 1
	}
	return 0
}
