package gen

import (
	"sort"
	"strings"
)

// G-schema: schema documents as JSON text, built from keyword instances.

// KV is one keyword with one argument (JSON text).
type KV struct{ K, V string }

// Obj renders a schema object from keyword instances (in the given order).
func Obj(kvs ...KV) string {
	var b strings.Builder
	b.WriteByte('{')
	for i, kv := range kvs {
		if i > 0 {
			b.WriteByte(',')
		}
		b.WriteByte('"')
		b.WriteString(kv.K)
		b.WriteString(`":`)
		b.WriteString(kv.V)
	}
	b.WriteByte('}')
	return b.String()
}

func arr(xs ...string) string { return "[" + strings.Join(xs, ",") + "]" }

func kvs(k string, vs ...string) []KV {
	out := make([]KV, len(vs))
	for i, v := range vs {
		out[i] = KV{k, v}
	}
	return out
}

// Atoms2020 is P0 for draft 2020-12: one keyword, every argument of its domain.
func Atoms2020() []KV {
	var a []KV
	a = append(a, kvs("type", `"null"`, `"boolean"`, `"object"`, `"array"`, `"number"`, `"string"`, `"integer"`, `["integer","null"]`, `["number","string"]`)...)
	a = append(a, kvs("enum", `[]`, `[1]`, `[null]`, `[1,"a"]`, `[[1]]`, `[{"a":1}]`, `[1.0,true]`, `[{"a":null}]`, `[[],{}]`, `[0,false,""]`)...)
	a = append(a, kvs("const", `null`, `0`, `1`, `false`, `"a"`, `[1]`, `{"a":1}`, `{"a":null}`, `[null]`, `{"a":1,"b":2}`, `""`, `[]`, `{}`)...)
	a = append(a, kvs("multipleOf", `1`, `2`, `0.5`, `0.25`, `1.5`)...)
	for _, k := range []string{"minimum", "maximum", "exclusiveMinimum", "exclusiveMaximum"} {
		a = append(a, kvs(k, `-1`, `0`, `1`, `1.5`, `9007199254740992`, `9007199254740994`)...)
	}
	for _, k := range []string{"minLength", "maxLength"} {
		a = append(a, kvs(k, `0`, `1`, `2`, `4`)...) // 4: strings of 3-5 code points outside the BMP are in the pool
	}
	a = append(a, kvs("pattern", `"^a"`, `"a$"`, `"^$"`, "\"é\"")...)
	for _, k := range []string{"minItems", "maxItems", "minProperties", "maxProperties"} {
		a = append(a, kvs(k, `0`, `1`, `2`)...)
	}
	a = append(a, kvs("uniqueItems", `true`, `false`)...)
	a = append(a, kvs("required", `[]`, `["a"]`, `["a","b"]`, `["c"]`)...)
	a = append(a, kvs("dependentRequired", `{"a":["b"]}`, `{"a":[]}`, `{"a":["b"],"b":["a"]}`)...)
	return a
}

// Atoms07 is P0 for draft-07 (no dependentRequired; dependencies array form instead).
func Atoms07() []KV {
	var a []KV
	for _, kv := range Atoms2020() {
		if kv.K == "dependentRequired" || (kv.K == "enum" && kv.V == "[]") {
			continue // draft-07 requires a non-empty enum
		}
		a = append(a, kv)
	}
	a = append(a, kvs("dependencies", `{"a":["b"]}`, `{"a":[]}`, `{"a":["b"],"b":["a"]}`)...)
	return a
}

// SubPool is A: discriminating subschemas used in nested positions.
func SubPool(n int) []string {
	all := []string{
		`true`, `false`, `{"type":"integer"}`, `{"type":"string"}`, `{"minimum":1}`, `{"const":1}`,
		`{"required":["a"]}`, `{"properties":{"a":{"type":"integer"}}}`, `{"minItems":2}`, `{"maxLength":1}`,
		`{"type":"object"}`, `{"enum":[1,"a"]}`, `{"type":"array"}`, `{"maximum":1}`,
	}
	if n > len(all) {
		n = len(all)
	}
	return all[:n]
}

// strPool: subschemas for propertyNames.
var strPool = []string{`true`, `false`, `{"maxLength":1}`, `{"pattern":"^a"}`, `{"const":"a"}`, `{"type":"string"}`, `{"enum":["a","b"]}`}

// Applicators2020 is P1: every applicator form over the sub-pool.
func Applicators2020(pool []string, small []string) []KV {
	var a []KV
	for _, k := range []string{"allOf", "anyOf", "oneOf"} {
		for _, x := range pool {
			a = append(a, KV{k, arr(x)})
		}
		for _, x := range pool {
			for _, y := range pool {
				a = append(a, KV{k, arr(x, y)})
			}
		}
	}
	for _, k := range []string{"not", "additionalProperties", "items", "contains", "unevaluatedItems", "unevaluatedProperties"} {
		for _, x := range pool {
			a = append(a, KV{k, x})
		}
	}
	for _, x := range strPool {
		a = append(a, KV{"propertyNames", x})
	}
	for _, x := range pool {
		a = append(a, KV{"properties", `{"a":` + x + `}`})
		a = append(a, KV{"patternProperties", `{"^a":` + x + `}`})
		a = append(a, KV{"patternProperties", `{"b":` + x + `}`})
		a = append(a, KV{"dependentSchemas", `{"a":` + x + `}`})
		a = append(a, KV{"prefixItems", arr(x)})
	}
	for _, x := range small {
		for _, y := range small {
			a = append(a, KV{"properties", `{"a":` + x + `,"b":` + y + `}`})
			a = append(a, KV{"patternProperties", `{"^a":` + x + `,"b":` + y + `}`})
			a = append(a, KV{"dependentSchemas", `{"a":` + x + `,"b":` + y + `}`})
			a = append(a, KV{"prefixItems", arr(x, y)})
		}
	}
	return a
}

// IfForms returns the if/then/else keyword groups (all 7 non-empty subsets).
func IfForms(small []string) [][]KV {
	var out [][]KV
	for mask := 1; mask < 8; mask++ {
		var rec func(i int, cur []KV)
		names := []string{"if", "then", "else"}
		rec = func(i int, cur []KV) {
			if i == 3 {
				out = append(out, append([]KV(nil), cur...))
				return
			}
			if mask&(1<<i) == 0 {
				rec(i+1, cur)
				return
			}
			for _, x := range small {
				rec(i+1, append(cur, KV{names[i], x}))
			}
		}
		rec(0, nil)
	}
	return out
}

// Applicators07 is the draft-07 analogue of P1.
func Applicators07(pool []string, small []string) []KV {
	var a []KV
	for _, k := range []string{"allOf", "anyOf", "oneOf"} {
		for _, x := range pool {
			a = append(a, KV{k, arr(x)})
		}
		for _, x := range small {
			for _, y := range small {
				a = append(a, KV{k, arr(x, y)})
			}
		}
	}
	for _, k := range []string{"not", "additionalProperties", "items", "contains"} {
		for _, x := range pool {
			a = append(a, KV{k, x})
		}
	}
	for _, x := range strPool {
		a = append(a, KV{"propertyNames", x})
	}
	for _, x := range pool {
		a = append(a, KV{"properties", `{"a":` + x + `}`})
		a = append(a, KV{"patternProperties", `{"^a":` + x + `}`})
		a = append(a, KV{"dependencies", `{"a":` + x + `}`})
		a = append(a, KV{"items", arr(x)})
	}
	for _, x := range small {
		for _, y := range small {
			a = append(a, KV{"properties", `{"a":` + x + `,"b":` + y + `}`})
			a = append(a, KV{"patternProperties", `{"^a":` + x + `,"b":` + y + `}`})
			a = append(a, KV{"dependencies", `{"a":` + x + `,"b":["a"]}`})
			a = append(a, KV{"dependencies", `{"a":` + x + `,"b":` + y + `}`})
			a = append(a, KV{"items", arr(x, y)})
		}
	}
	return a
}

// Set is an ordered, de-duplicated list of schema texts.
type Set struct {
	seen map[string]bool
	List []string
	Pool map[string]int // per-pool counts
}

func NewSet() *Set { return &Set{seen: map[string]bool{}, Pool: map[string]int{}} }

func (s *Set) Add(pool, text string) {
	if s.seen[text] {
		return
	}
	s.seen[text] = true
	s.List = append(s.List, text)
	s.Pool[pool]++
}

// pairs adds every unordered pair of keyword instances with different names.
func pairs(s *Set, pool string, xs []KV, pre ...KV) {
	for i := range xs {
		for j := i + 1; j < len(xs); j++ {
			if xs[i].K == xs[j].K {
				continue
			}
			s.Add(pool, Obj(append(append([]KV(nil), pre...), xs[i], xs[j])...))
		}
	}
}

func filter(xs []KV, keys ...string) []KV {
	var out []KV
	for _, x := range xs {
		for _, k := range keys {
			if x.K == k {
				out = append(out, x)
			}
		}
	}
	return out
}

// triples adds every triple with pairwise different keyword names.
func triples(s *Set, pool string, xs []KV) {
	for i := range xs {
		for j := i + 1; j < len(xs); j++ {
			if xs[i].K == xs[j].K {
				continue
			}
			for k := j + 1; k < len(xs); k++ {
				if xs[k].K == xs[i].K || xs[k].K == xs[j].K {
					continue
				}
				s.Add(pool, Obj(xs[i], xs[j], xs[k]))
			}
		}
	}
}

// Schemas2020 builds G-schema/2020 for a tier.
func Schemas2020(thorough bool) *Set {
	s := NewSet()
	atoms := Atoms2020()
	poolN, smallN := 8, 3
	if thorough {
		poolN, smallN = 12, 4
	}
	pool, small := SubPool(poolN), SubPool(14)[2:2+smallN]
	small = append([]string{`true`, `false`}, small...)
	apps := Applicators2020(pool, small)
	for _, b := range []string{`true`, `false`, `{}`} {
		s.Add("P0", b)
	}
	for _, a := range atoms {
		s.Add("P0", Obj(a))
	}
	for _, a := range apps {
		s.Add("P1", Obj(a))
	}
	ifs := IfForms(small[:4])
	for _, f := range ifs {
		s.Add("P1", Obj(f...))
	}
	// min/maxContains only mean something next to contains
	for _, c := range []string{`{"type":"integer"}`, `{"const":1}`, `true`} {
		for _, mn := range []string{"", "0", "1", "2"} {
			for _, mx := range []string{"", "0", "1", "2"} {
				kv := []KV{{"contains", c}}
				if mn != "" {
					kv = append(kv, KV{"minContains", mn})
				}
				if mx != "" {
					kv = append(kv, KV{"maxContains", mx})
				}
				s.Add("P1", Obj(kv...))
				s.Add("P3", Obj(append(kv, KV{"unevaluatedItems", `false`})...))
				s.Add("P3", Obj(append(kv, KV{"items", `{"type":"integer"}`})...))
			}
		}
	}
	// P2: pairs over atoms + a reduced applicator list
	redApps := Applicators2020(small[:3], small[:3])
	var p2 []KV
	p2 = append(p2, atoms...)
	p2 = append(p2, redApps...)
	pairs(s, "P2", p2)
	for _, f := range ifs {
		if len(f) < 2 {
			continue
		}
		for _, a := range filter(p2, "properties", "unevaluatedProperties", "unevaluatedItems", "prefixItems", "required", "type", "additionalProperties") {
			s.Add("P2", Obj(append(append([]KV(nil), f...), a)...))
		}
	}
	// P3: triples inside the object / array / logic families
	objFam := filter(redApps, "properties", "patternProperties", "additionalProperties", "unevaluatedProperties", "propertyNames", "dependentSchemas")
	objFam = append(objFam, filter(atoms, "required", "minProperties", "maxProperties", "dependentRequired")...)
	arrFam := filter(redApps, "prefixItems", "items", "contains", "unevaluatedItems")
	arrFam = append(arrFam, filter(atoms, "minItems", "maxItems", "uniqueItems")...)
	logFam := filter(redApps, "allOf", "anyOf", "oneOf", "not", "unevaluatedProperties", "unevaluatedItems", "properties", "prefixItems")
	if thorough {
		triples(s, "P3", objFam)
		triples(s, "P3", arrFam)
		triples(s, "P3", logFam)
	} else {
		triples(s, "P3", thin(objFam, 2))
		triples(s, "P3", thin(arrFam, 2))
		triples(s, "P3", thin(logFam, 3))
	}
	// P4: nesting depth 2 (3 thorough) over a 3-atom pool
	leaves := []string{`{"type":"integer"}`, `{"required":["a"]}`, `false`}
	wrap := func(x string) []string {
		return []string{
			`{"allOf":[` + x + `]}`, `{"anyOf":[` + x + `,{"type":"string"}]}`, `{"oneOf":[` + x + `,{"const":1}]}`, `{"not":` + x + `}`,
			`{"if":` + x + `,"then":{"type":"object"},"else":{"type":"integer"}}`,
			`{"properties":{"a":` + x + `}}`, `{"patternProperties":{"^a":` + x + `}}`, `{"additionalProperties":` + x + `}`,
			`{"items":` + x + `}`, `{"prefixItems":[` + x + `]}`, `{"contains":` + x + `}`,
			`{"dependentSchemas":{"a":` + x + `}}`, `{"propertyNames":` + x + `}`,
			`{"unevaluatedProperties":` + x + `}`, `{"unevaluatedItems":` + x + `}`,
		}
	}
	// the $defs/$ref wrapper only around reference-free schemas: nested twice, the inner
	// "#/$defs/d" would name the outer wrapper itself (recursion without instance descent)
	wrapRef := func(x string) []string {
		if strings.Contains(x, `"$ref"`) {
			return nil
		}
		return []string{`{"$defs":{"d":` + x + `},"$ref":"#/$defs/d"}`}
	}
	var d1, d2 []string
	for _, l := range leaves {
		d1 = append(d1, wrap(l)...)
		d1 = append(d1, wrapRef(l)...)
	}
	for _, x := range d1 {
		d2 = append(d2, wrap(x)...)
		d2 = append(d2, wrapRef(x)...)
	}
	for _, x := range d2 {
		s.Add("P4", x)
	}
	if thorough {
		for _, x := range d2 {
			for _, y := range wrap(x)[:8] {
				s.Add("P4", y)
			}
		}
	}
	// $ref / $defs / $anchor forms
	for _, x := range pool {
		s.Add("Pref", `{"$defs":{"d":`+x+`},"$ref":"#/$defs/d"}`)
		if strings.HasPrefix(x, "{") {
			s.Add("Pref", `{"$defs":{"d":{"$anchor":"k",`+x[1:]+`},"$ref":"#k"}`)
			s.Add("Pref", `{"$defs":{"d":{"$id":"http://h/d.json",`+x[1:]+`},"$ref":"http://h/d.json"}`)
		}
		s.Add("Pref", `{"$defs":{"d":`+x+`},"properties":{"a":{"$ref":"#/$defs/d"}},"items":{"$ref":"#/$defs/d"}}`)
	}
	regexForms(s, true)
	// an $id with an empty fragment is allowed and names the resource without it
	s.Add("Pref", `{"$defs":{"d":{"$id":"http://h/d.json#","type":"integer"}},"$ref":"http://h/d.json"}`)
	s.Add("Pref", `{"$defs":{"a":{"type":"string"},"d":{"$id":"http://h/d.json#","$defs":{"a":{"type":"integer"}},"$ref":"#/$defs/a"}},"properties":{"a":{"$ref":"#/$defs/d"},"b":{"$ref":"#/$defs/a"}}}`)
	s.Add("Pref", `{"$id":"http://h/root.json#","$defs":{"a":{"type":"integer"}},"properties":{"a":{"$ref":"http://h/root.json#/$defs/a"},"b":{"$ref":"root.json#/$defs/a"}}}`)
	for _, a := range atoms {
		s.Add("Pref", Obj(KV{"$defs", `{"d":{"type":"integer"}}`}, KV{"$ref", `"#/$defs/d"`}, a))
		s.Add("Pref", Obj(KV{"$defs", `{"d":{"required":["a"]}}`}, KV{"$ref", `"#/$defs/d"`}, a))
	}
	for _, a := range redApps {
		s.Add("Pref", Obj(KV{"$defs", `{"d":{"properties":{"a":{"type":"integer"}}}}`}, KV{"$ref", `"#/$defs/d"`}, a))
	}
	// recursion through instance-descending keywords
	for _, a := range append(filter(atoms, "type", "required", "minimum", "maxProperties", "minItems", "const", "enum"), filter(redApps, "additionalProperties", "unevaluatedProperties", "prefixItems")...) {
		if a.K != "properties" {
			s.Add("Prec", Obj(KV{"properties", `{"a":{"$ref":"#"}}`}, a))
		}
		if a.K != "items" {
			s.Add("Prec", Obj(KV{"items", `{"$ref":"#"}`}, a))
		}
		if a.K != "additionalProperties" {
			s.Add("Prec", Obj(KV{"additionalProperties", `{"$ref":"#"}`}, a))
		}
	}
	// contains / minContains / maxContains next to the other array keywords and inside conditionals
	for _, c := range []string{`false`, `{"const":1}`, `{"type":"integer"}`} {
		for _, mm := range [][2]string{{"0", "0"}, {"0", "1"}, {"1", "1"}, {"", "1"}, {"0", ""}, {"2", ""}} {
			kv := []KV{{"contains", c}}
			if mm[0] != "" {
				kv = append(kv, KV{"minContains", mm[0]})
			}
			if mm[1] != "" {
				kv = append(kv, KV{"maxContains", mm[1]})
			}
			for _, ex := range [][]KV{{{"prefixItems", `[true]`}}, {{"prefixItems", `[{"type":"string"}]`}, {"unevaluatedItems", `false`}}, {{"uniqueItems", `true`}}, {{"prefixItems", `[true]`}, {"items", `false`}},
				{{"prefixItems", `[true]`}, {"unevaluatedItems", `false`}}, {{"minItems", `2`}}} {
				s.Add("Pcont", Obj(append(append([]KV(nil), kv...), ex...)...))
			}
			s.Add("Pcont", `{"if":`+Obj(kv...)+`,"then":{"maxItems":1},"else":{"minItems":1}}`)
			s.Add("Pcont", `{"allOf":[`+Obj(kv...)+`],"unevaluatedItems":false}`)
			s.Add("Pcont", `{"not":`+Obj(kv...)+`}`)
		}
	}
	// three branches
	br := []string{`{"type":"integer"}`, `{"minimum":1}`, `{"required":["a"]}`, `{"properties":{"a":{"type":"integer"}}}`, `true`, `false`}
	for _, k := range []string{"allOf", "anyOf", "oneOf"} {
		for i, a := range br {
			for j, b := range br {
				for l, c := range br {
					if (i+2*j+3*l)%3 == 0 || a == b || a == c {
						s.Add("Pthree", `{"`+k+`":[`+a+`,`+b+`,`+c+`]}`)
						if k != "allOf" {
							s.Add("Pthree", `{"`+k+`":[`+a+`,`+b+`,`+c+`],"unevaluatedProperties":false}`)
						}
					}
				}
			}
		}
	}
	// recursion with a sibling that looks at the same object, against deep instances
	s.Add("Prec", `{"properties":{"a":{"$ref":"#"}},"additionalProperties":{"type":"integer"}}`)
	s.Add("Prec", `{"properties":{"a":{"$ref":"#"}},"unevaluatedProperties":{"type":"string"}}`)
	s.Add("Prec", `{"items":{"$ref":"#"},"properties":{"a":{"$ref":"#"}},"type":["array","object","integer"]}`)
	s.Add("Prec", `{"prefixItems":[{"$ref":"#"}],"unevaluatedItems":{"type":"string"},"type":"array"}`)
	s.Add("Prec", `{"anyOf":[{"type":"integer"},{"type":"array","items":{"$ref":"#"}},{"type":"object","additionalProperties":{"$ref":"#"}}]}`)
	// boolean schemas in every subschema slot are covered by pool[0:2] in every applicator.
	return s
}

// thin keeps every k-th element per keyword name (deterministic).
func thin(xs []KV, k int) []KV {
	cnt := map[string]int{}
	var out []KV
	for _, x := range xs {
		if cnt[x.K]%k == 0 {
			out = append(out, x)
		}
		cnt[x.K]++
	}
	return out
}

// Schemas07 builds G-schema/07 (without $schema; callers prepend it).
func Schemas07(thorough bool) *Set {
	s := NewSet()
	atoms := Atoms07()
	poolN, smallN := 8, 3
	if thorough {
		poolN, smallN = 12, 4
	}
	pool, small := SubPool(poolN), SubPool(14)[2:2+smallN]
	small = append([]string{`true`, `false`}, small...)
	apps := Applicators07(pool, small)
	for _, b := range []string{`{}`} {
		s.Add("P0", b)
	}
	for _, a := range atoms {
		s.Add("P0", Obj(a))
	}
	for _, a := range apps {
		s.Add("P1", Obj(a))
	}
	for _, f := range IfForms(small[:4]) {
		s.Add("P1", Obj(f...))
	}
	// items (both forms) x additionalItems
	for _, ai := range []string{"", `false`, `true`, `{"type":"integer"}`, `{"type":"string"}`} {
		for _, it := range []string{"", `{"type":"integer"}`, `true`, `false`, `[{"type":"integer"}]`, `[{"type":"integer"},{"type":"string"}]`, `[true,false]`} {
			var kv []KV
			if it != "" {
				kv = append(kv, KV{"items", it})
			}
			if ai != "" {
				kv = append(kv, KV{"additionalItems", ai})
			}
			if len(kv) > 0 {
				s.Add("P1", Obj(kv...))
				s.Add("P2", Obj(append(kv, KV{"maxItems", "2"})...))
				s.Add("P2", Obj(append(kv, KV{"contains", `{"const":1}`})...))
			}
		}
	}
	// dependencies in both forms, mixed
	for _, x := range small {
		s.Add("P1", `{"dependencies":{"a":["b"],"b":`+x+`}}`)
		s.Add("P1", `{"dependencies":{"a":`+x+`,"c":["a","b"]}}`)
	}
	redApps := Applicators07(small[:3], small[:3])
	var p2 []KV
	p2 = append(p2, atoms...)
	p2 = append(p2, redApps...)
	p2 = append(p2, KV{"additionalItems", `false`}, KV{"additionalItems", `{"type":"integer"}`})
	pairs(s, "P2", p2)
	objFam := filter(redApps, "properties", "patternProperties", "additionalProperties", "propertyNames", "dependencies")
	objFam = append(objFam, filter(atoms, "required", "minProperties", "maxProperties")...)
	arrFam := filter(redApps, "items", "contains")
	arrFam = append(arrFam, KV{"additionalItems", `false`}, KV{"additionalItems", `{"type":"integer"}`})
	arrFam = append(arrFam, filter(atoms, "minItems", "maxItems", "uniqueItems")...)
	if thorough {
		triples(s, "P3", objFam)
		triples(s, "P3", arrFam)
	} else {
		triples(s, "P3", thin(objFam, 2))
		triples(s, "P3", thin(arrFam, 2))
	}
	// definitions + $ref; $ref with siblings (siblings must be ignored)
	for _, x := range pool {
		s.Add("Pref", `{"definitions":{"d":`+x+`},"$ref":"#/definitions/d"}`)
		s.Add("Pref", `{"definitions":{"d":`+x+`},"properties":{"a":{"$ref":"#/definitions/d"}},"items":{"$ref":"#/definitions/d"}}`)
		if strings.HasPrefix(x, "{") {
			s.Add("Pref", `{"definitions":{"d":{"$id":"#k",`+x[1:]+`},"allOf":[{"$ref":"#k"}]}`)
			s.Add("Pref", `{"definitions":{"d":{"$id":"http://h/d.json",`+x[1:]+`},"allOf":[{"$ref":"http://h/d.json"}]}`)
		}
	}
	for _, a := range atoms {
		s.Add("Psib", Obj(KV{"definitions", `{"d":{"type":"integer"}}`}, KV{"$ref", `"#/definitions/d"`}, a))
		s.Add("Psib", Obj(KV{"definitions", `{"d":true}`}, KV{"$ref", `"#/definitions/d"`}, a))
		s.Add("Psib", `{"definitions":{"d":{"type":"integer"}},"properties":{"a":`+Obj(KV{"$ref", `"#/definitions/d"`}, a)+`}}`)
	}
	for _, a := range apps {
		s.Add("Psib", Obj(KV{"definitions", `{"d":true}`}, KV{"$ref", `"#/definitions/d"`}, a))
	}
	// applicators that themselves contain $ref with siblings
	sibs := append(filter(atoms, "type", "required", "maximum"), KV{"not", `{}`}, KV{"not", `true`}, KV{"const", `12345`}, KV{"enum", `["zz"]`}, KV{"minItems", `9`}, KV{"maxProperties", `0`})
	for _, a := range sibs {
		inner := Obj(KV{"$ref", `"#/definitions/d"`}, a)
		for _, k := range []string{"allOf", "anyOf", "oneOf"} {
			s.Add("Psib", `{"definitions":{"d":{"type":["integer","object"]}},"`+k+`":[`+inner+`]}`)
		}
		s.Add("Psib", `{"definitions":{"d":{"type":["integer","object"]}},"not":`+inner+`}`)
		s.Add("Psib", `{"definitions":{"d":{"type":["integer","object"]}},"items":[`+inner+`],"additionalItems":`+inner+`}`)
		s.Add("Psib", `{"definitions":{"d":{"type":["integer","object"]}},"dependencies":{"a":`+inner+`}}`)
		s.Add("Psib", `{"definitions":{"d":{"type":["integer","object","string"]}},"items":[{"type":"integer"}],"additionalItems":`+inner+`}`)
		s.Add("Psib", `{"definitions":{"d":{"type":["integer","object","string"]}},"additionalProperties":`+inner+`,"properties":{"a":true}}`)
		s.Add("Psib", `{"definitions":{"d":{"type":["integer","object","string"]}},"contains":`+inner+`}`)
		s.Add("Psib", `{"definitions":{"d":{"type":["integer","object","string"]}},"propertyNames":`+inner+`}`)
		s.Add("Psib", `{"definitions":{"d":{"type":["integer","object","string"]}},"if":`+inner+`,"then":{"type":"integer"},"else":false}`)
	}
	// $id beside $ref is ignored: the ref still resolves against the outer base
	s.Add("Psib", `{"definitions":{"d":{"type":"integer"}},"properties":{"a":{"$id":"http://other/x.json","$ref":"#/definitions/d"}}}`)
	s.Add("Psib", `{"definitions":{"d":{"type":"integer"},"e":{"$id":"#k","$ref":"#/definitions/d"}},"allOf":[{"$ref":"#/definitions/e"}]}`)
	// keywords of later drafts inside a draft-07 document are unknown keywords: no effect
	later := []KV{{"minContains", `0`}, {"minContains", `2`}, {"maxContains", `0`}, {"maxContains", `1`}, {"unevaluatedItems", `false`}, {"unevaluatedItems", `{"type":"string"}`}, {"unevaluatedProperties", `false`},
		{"unevaluatedProperties", `{"type":"integer"}`}, {"prefixItems", `[{"type":"string"}]`}, {"dependentRequired", `{"a":["b"]}`}, {"dependentSchemas", `{"a":false}`}}
	carriers := [][]KV{nil, {{"contains", `{"type":"integer"}`}}, {{"contains", `true`}}, {{"contains", `false`}}, {{"items", `[{"type":"integer"}]`}}, {{"items", `{"type":"integer"}`}}, {{"items", `[true]`}, {"additionalItems", `false`}},
		{{"properties", `{"a":true}`}}, {{"allOf", `[{"properties":{"a":true}},{"items":[true]}]`}}, {{"additionalProperties", `{"type":"string"}`}}, {{"dependencies", `{"a":["c"]}`}}}
	for _, l := range later {
		for _, c := range carriers {
			s.Add("Plater", Obj(append(append([]KV(nil), c...), l)...))
		}
	}
	for _, c := range []string{`{"type":"integer"}`, `true`, `{"const":1}`} {
		for _, mm := range [][2]string{{"0", "0"}, {"0", "1"}, {"2", "3"}, {"1", "1"}} {
			s.Add("Plater", Obj(KV{"contains", c}, KV{"minContains", mm[0]}, KV{"maxContains", mm[1]}))
		}
	}
	regexForms(s, false)
	// $dynamicRef / $dynamicAnchor / $anchor are unknown keywords in draft-07: no reference, no anchor
	s.Add("Psib", `{"definitions":{"d":{"type":"integer"}},"properties":{"a":{"$dynamicRef":"#/definitions/d"}},"items":{"$dynamicRef":"#/nope"}}`)
	s.Add("Psib", `{"definitions":{"d":{"$id":"#k","type":"integer","$dynamicRef":"#k"},"e":{"$anchor":"k","$dynamicAnchor":"k","type":"string"}},"properties":{"a":{"$ref":"#k"}},"additionalProperties":{"$dynamicRef":"#k"}}`)
	// an $id that ends in an empty fragment ("...#", the spelling of the draft-07 meta-schema) names a
	// resource like the same URI without it: references by URI reach it, pointers below it start there
	s.Add("Pref", `{"definitions":{"d":{"$id":"http://h/d.json#","type":"integer"}},"allOf":[{"$ref":"http://h/d.json"}]}`)
	s.Add("Pref", `{"definitions":{"d":{"$id":"http://h/d.json#","type":"integer"}},"items":{"$ref":"http://h/d.json#"}}`)
	s.Add("Pref", `{"definitions":{"a":{"type":"string"},"d":{"$id":"http://h/d.json#","definitions":{"a":{"type":"integer"}},"allOf":[{"$ref":"#/definitions/a"}]}},"properties":{"a":{"$ref":"#/definitions/d"},"b":{"$ref":"#/definitions/a"}}}`)
	s.Add("Pref", `{"$id":"http://h/root.json#","definitions":{"a":{"type":"integer"}},"properties":{"a":{"$ref":"http://h/root.json#/definitions/a"},"b":{"$ref":"root.json#/definitions/a"}}}`)
	s.Add("Pref", `{"$id":"http://h/dir/root.json#","definitions":{"a":{"type":"integer"},"e":{"$id":"e.json#","definitions":{"k":{"$id":"#k","type":"string"}}}},"properties":{"a":{"$ref":"http://h/dir/e.json#k"},"b":{"$ref":"e.json"}}}`)
	// a fragment-only $id inside an embedded resource is an anchor of that resource
	s.Add("Pref", `{"definitions":{"e":{"$id":"http://h/e.json","definitions":{"k":{"$id":"#k","type":"integer"}}}},"allOf":[{"$ref":"http://h/e.json#k"}]}`)
	s.Add("Pref", `{"definitions":{"e":{"$id":"http://h/e.json","definitions":{"k":{"$id":"#k","type":"integer"}},"allOf":[{"$ref":"#k"}]},"k":{"$id":"#k","type":"string"}},"properties":{"a":{"$ref":"http://h/e.json"},"b":{"$ref":"#k"}}}`)
	// $ref with siblings under patternProperties / then / else
	for _, a := range sibs {
		inner := Obj(KV{"$ref", `"#/definitions/d"`}, a)
		s.Add("Psib", `{"definitions":{"d":{"type":["integer","object","string"]}},"patternProperties":{"^a":`+inner+`}}`)
		s.Add("Psib", `{"definitions":{"d":{"type":["integer","object","string"]}},"if":{"type":"object"},"then":`+inner+`,"else":`+inner+`}`)
	}
	// a fragment-only $id beside $ref is ignored like every other sibling: the name stays free for
	// (or is not stolen from) a genuine anchor elsewhere, before or after it in traversal order
	for _, pair := range [][2]string{{"a", "b"}, {"b", "a"}, {"a", "z"}} {
		sib, gen := pair[0], pair[1]
		s.Add("Psib", `{"definitions":{"`+sib+`":{"$id":"#k","$ref":"#/definitions/t"},"`+gen+`":{"$id":"#k","type":"string"},"t":{"type":"integer"}},"allOf":[{"$ref":"#k"}]}`)
		s.Add("Psib", `{"definitions":{"`+sib+`":{"$id":"#k","$ref":"#/definitions/t"},"`+gen+`":{"$id":"#k","type":"string"},"t":{"type":"integer"}},"properties":{"a":{"$ref":"#k"},"b":{"$ref":"#/definitions/`+sib+`"}}}`)
	}
	s.Add("Psib", `{"properties":{"p":{"$id":"#k","$ref":"#/definitions/t"}},"definitions":{"t":{"type":"integer"},"u":{"$id":"#k","type":"object"}},"items":{"$ref":"#k"}}`)
	// recursion
	for _, a := range filter(atoms, "type", "required", "minimum", "maxProperties", "minItems") {
		s.Add("Prec", Obj(KV{"properties", `{"a":{"$ref":"#"}}`}, a))
		s.Add("Prec", Obj(KV{"items", `{"$ref":"#"}`}, a))
		s.Add("Prec", Obj(KV{"items", `[{"$ref":"#"}]`}, KV{"additionalItems", `{"$ref":"#"}`}, a))
	}
	return s
}

// SortedPools renders per-pool counts deterministically.
func (s *Set) SortedPools() map[string]int {
	out := map[string]int{}
	ks := make([]string, 0, len(s.Pool))
	for k := range s.Pool {
		ks = append(ks, k)
	}
	sort.Strings(ks)
	for _, k := range ks {
		out[k] = s.Pool[k]
	}
	return out
}

// regexForms: the regular-expression keywords with patterns of every anchoring (a fully anchored
// literal must match the whole string, not a part of it), alternation and optional parts, over
// the names and strings of the pool (a, b, ab, ba, abcd, the empty string).
func regexForms(s *Set, d2020 bool) {
	for _, p := range []string{`^a$`, `^ab$`, `^b`, `ab`, `^.$`, `^a?b$`, `^(a|b)$`, `b$`, `^$`} {
		q := `"` + p + `"`
		s.Add("Prx", `{"pattern":`+q+`}`)
		s.Add("Prx", `{"patternProperties":{`+q+`:{"type":"integer"}}}`)
		s.Add("Prx", `{"patternProperties":{`+q+`:{"type":"integer"}},"additionalProperties":false}`)
		s.Add("Prx", `{"patternProperties":{`+q+`:true,"^c":{"type":"string"}},"additionalProperties":{"type":"string"}}`)
		s.Add("Prx", `{"propertyNames":{"pattern":`+q+`}}`)
		s.Add("Prx", `{"items":{"pattern":`+q+`}}`)
		if d2020 {
			s.Add("Prx", `{"patternProperties":{`+q+`:true},"unevaluatedProperties":false}`)
			s.Add("Prx", `{"allOf":[{"patternProperties":{`+q+`:true}}],"unevaluatedProperties":{"type":"string"}}`)
		}
	}
}
