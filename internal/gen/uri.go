package gen

import (
	"fmt"
	"strings"
)

// G-uri: reference topologies. Every candidate target is {"const": k} with a
// unique k so that the target a reference reached is observable from verdicts.

// RefAlphabet covers every syntactic form of $ref the property lists.
var RefAlphabet = []string{
	"#", "#/$defs/t", "#k", "#/$defs/a", "#/$defs/e", "#/$defs/e/$defs/t", "#/$defs/e/$defs/f", "#nope", "#/$defs/nope", "#/$defs", "#/$defs/e/$defs/a",
	"http://h/root.json", "http://h/root.json#", "http://h/root.json#k", "http://h/root.json#/$defs/t", "http://h/root.json#nope",
	"http://h/dir/x.json", "http://h/dir/x.json#k", "http://h/dir/x.json#/$defs/t", "http://h/dir/x.json#/$defs/nope",
	"http://h/dir/e.json", "http://h/dir/e.json#k", "http://h/dir/f.json", "http://h/dir/f.json#k", "http://h/f.json#/$defs/t",
	"http://other/y.json", "http://other/y.json#k", "http://other/y.json#/$defs/t",
	"urn:ex:a", "urn:ex:a#k", "urn:ex:e", "urn:ex:e#/$defs/t", "urn:ex:e#k",
	"x.json", "x.json#k", "dir/x.json", "dir/e.json#k", "dir/e.json#/$defs/t", "e.json", "e.json#k", "f.json", "f.json#k", "f.json#/$defs/t",
	"../up.json", "../up.json#k", "./dot.json", "./dot.json#/$defs/t", "/abs.json", "/abs.json#k", "../f.json#k", "./f.json", "dir/../dir/e.json#k",
	"http://h/dir/../dir/x.json#k", "http://h/./abs.json", "http://h/up.json", "http://h/dot.json#k", "http://h/dir/dot.json#k", "http://h/abs.json#/$defs/t",
	"root.json", "root.json#k", "?q", "sub.json#k", "http://h/sub.json",
}

var (
	rootIDs = []string{"", "http://h/root.json", "http://h/dir/x.json", "urn:ex:a", "sub.json"}
	eIDs    = []string{"http://h/dir/x.json", "dir/e.json", "/abs.json", "urn:ex:e", "../up.json", "./dot.json", "e.json", "http://other/y.json"}
	fIDs    = []string{"f.json", "http://other/y.json", "../f.json", "http://h/dir/f.json"}
)

// Worlds enumerates single-document reference worlds: a root (retrieved from
// base, optionally with its own $id) that embeds resource e, which embeds f;
// the probe {"$ref": R} sits either in the root resource or inside e.
func Worlds(thorough bool, yield func(u *Universe, desc string)) {
	for _, base := range []string{"http://h/root.json", ""} {
		for _, rid := range rootIDs {
			for ei, eid := range eIDs {
				for fi, fid := range fIDs {
					if !thorough && (ei+fi)%2 == 1 && rid != "" {
						continue
					}
					if rid == "http://h/dir/x.json" && eid == rid {
						continue // duplicate resource URIs are invalid schemas
					}
					if fid == "http://other/y.json" && eid == fid {
						continue
					}
					for mode := 0; mode < 3; mode++ {
						inE, both := mode == 1, mode == 2
						for ri, ref := range RefAlphabet {
							if both && !thorough && ri%3 != 1 {
								continue
							}
							f := fmt.Sprintf(`{"$id":%q,"const":6,"$defs":{"t":{"const":7},"a":{"$anchor":"k","const":8}}}`, fid)
							eDefs := `"t":{"const":4},"a":{"$anchor":"k","const":5},"f":` + f
							probe := fmt.Sprintf(`{"$ref":%q}`, ref)
							ptr := "#/$defs/probe"
							if inE || both {
								eDefs += `,"probe":` + probe
							}
							if inE {
								ptr = "#/$defs/e/$defs/probe"
							}
							e := fmt.Sprintf(`{"$id":%q,"const":3,"$defs":{%s}}`, eid, eDefs)
							defs := `"t":{"const":1},"a":{"$anchor":"k","const":2},"e":` + e
							if !inE {
								defs += `,"probe":` + probe
							}
							var parts []string
							if rid != "" {
								parts = append(parts, fmt.Sprintf(`"$id":%q`, rid))
							}
							props := `"p":{"$ref":"` + ptr + `"}`
							if both {
								// the same reference text in two resources must resolve per resource
								props += `,"q":{"$ref":"#/$defs/e/$defs/probe"}`
							}
							parts = append(parts, `"type":"object"`, `"properties":{`+props+`}`, `"$defs":{`+defs+`}`)
							u := &Universe{Root: "{" + strings.Join(parts, ",") + "}", Base: base, Kind: "world"}
							// relative-path references against a non-hierarchical (urn:) base have no
							// agreed meaning (RFC 3986 merge vs. net/url's opaque handling): either outcome
							isRel := func(x string) bool { return x != "" && !strings.HasPrefix(x, "#") && !strings.Contains(x, ":") }
							if (strings.HasPrefix(rid, "urn:") && (isRel(eid) || (!inE && isRel(ref)))) ||
								(strings.HasPrefix(eid, "urn:") && (isRel(fid) || ((inE || both) && isRel(ref)))) ||
								(both && strings.HasPrefix(rid, "urn:") && isRel(ref)) {
								u.Kind = "world-urnrel"
							}
							for k := 1; k <= 8; k++ {
								u.Insts = append(u.Insts, fmt.Sprintf(`{"p":%d}`, k))
							}
							if both {
								for k := 1; k <= 8; k++ {
									u.Insts = append(u.Insts, fmt.Sprintf(`{"q":%d}`, k))
								}
							}
							u.Insts = append(u.Insts, `{"p":{"p":1}}`, `{"p":{"p":{"p":9}}}`, `{"p":9}`, `{"p":{"p":3}}`)
							yield(u, fmt.Sprintf("base=%q rootid=%q eid=%q fid=%q probe=%d ref=%q", base, rid, eid, fid, mode, ref))
						}
					}
				}
			}
		}
	}
}

// frag forms of a cross-document edge
var fragForms = []string{"", "#/$defs/t", "#k"}

type edge struct {
	from string // "R", "D1", ...
	prop string // property of `from` that holds the $ref
	to   string // "R", "D1", "D2", "D3", "E"
	viaC bool   // use the target's canonical $id instead of its retrieval URI
}

type shape struct {
	name  string
	docs  []string // loader documents
	edges []edge
}

var shapes = []shape{
	{"chain2", []string{"D1", "D2"}, []edge{{"R", "p", "D1", false}, {"D1", "n", "D2", false}}},
	{"chain3", []string{"D1", "D2", "D3"}, []edge{{"R", "p", "D1", false}, {"D1", "n", "D2", false}, {"D2", "n", "D3", false}}},
	{"diamond", []string{"D1", "D2", "D3"}, []edge{{"R", "p", "D1", false}, {"R", "q", "D2", false}, {"D1", "n", "D3", false}, {"D2", "n", "D3", false}}},
	{"cycleR", []string{"D1"}, []edge{{"R", "p", "D1", false}, {"D1", "n", "R", false}}},
	{"cycle12", []string{"D1", "D2"}, []edge{{"R", "p", "D1", false}, {"D1", "n", "D2", false}, {"D2", "n", "D1", false}}},
	{"self", []string{"D1"}, []edge{{"R", "p", "D1", false}, {"D1", "n", "D1", false}}},
	{"aliasUC", []string{"D1"}, []edge{{"R", "p", "D1", false}, {"R", "q", "D1", true}}},
	{"aliasCycle", []string{"D1", "D2"}, []edge{{"R", "p", "D1", false}, {"D1", "n", "D2", false}, {"D2", "n", "D1", true}}},
	{"aliasDiamond", []string{"D1", "D2", "D3"}, []edge{{"R", "p", "D1", false}, {"R", "q", "D2", false}, {"D1", "n", "D3", false}, {"D2", "n", "D3", true}}},
	{"back", []string{"D1"}, []edge{{"R", "p", "D1", false}, {"D1", "n", "E", false}}},
	{"back2", []string{"D1", "D2"}, []edge{{"R", "p", "D1", false}, {"D1", "n", "D2", false}, {"D2", "n", "E", false}, {"D2", "m", "R", false}}},
	{"embInDoc", []string{"D1", "D2"}, []edge{{"R", "p", "D1", false}, {"D1", "n", "D2", false}, {"D2", "n", "F", false}}},
	{"embInDocBack", []string{"D1", "D2"}, []edge{{"R", "p", "D1", false}, {"D1", "n", "D2", false}, {"D2", "n", "F", false}, {"D1", "m", "F", false}}},
	{"twice", []string{"D1"}, []edge{{"R", "p", "D1", false}, {"R", "q", "D1", false}}},
	{"fan", []string{"D1", "D2"}, []edge{{"R", "p", "D1", false}, {"R", "q", "D2", false}, {"D1", "n", "D2", false}, {"D1", "m", "D2", false}}},
}

var docNum = map[string]int{"R": 0, "D1": 1, "D2": 2, "D3": 3, "E": 4, "F": 5}

// MultiDoc enumerates universes of loader documents in the named shapes, each
// edge in every fragment form, documents with $id absent / equal to the
// retrieval URI / a different canonical URI (alias).
func MultiDoc(thorough bool, yield func(u *Universe, desc string, alias bool)) {
	retr := map[string]string{"R": "http://h/root.json", "D1": "http://h/d1.json", "D2": "http://h/sub/d2.json", "D3": "http://h/d3.json", "E": "http://h/emb.json", "F": "http://h/d1emb.json"} // F is a resource embedded in D1
	canon := map[string]string{"D1": "http://h/canon/d1.json", "D2": "http://h/canon/d2.json", "D3": "urn:ex:d3"}
	relFrom := map[string]map[string]string{ // relative spellings of retrieval URIs, from each document
		"R":  {"D1": "d1.json", "D2": "sub/d2.json", "D3": "./d3.json", "E": "emb.json", "R": "root.json", "F": "d1emb.json"},
		"D1": {"D1": "d1.json", "D2": "sub/d2.json", "D3": "d3.json", "E": "emb.json", "R": "root.json", "F": "d1emb.json"},
		"D2": {"D1": "../d1.json", "D2": "d2.json", "D3": "../d3.json", "E": "../emb.json", "R": "../root.json", "F": "../d1emb.json"},
	}
	for _, sh := range shapes {
		ne := len(sh.edges)
		nf := 1
		for i := 0; i < ne; i++ {
			nf *= 3
		}
		// after the valid forms: each single edge with a dangling fragment (anchor / pointer that
		// names nothing in the target document), the other edges keeping fragment form fv%nf
		for fv := 0; fv < nf+2*ne*nf/3; fv++ {
			dangEdge, dangForm := -1, ""
			if fv >= nf {
				x := fv - nf
				dangEdge = x % ne
				x /= ne
				dangForm = []string{"#nope", "#/$defs/nope"}[x%2]
				x /= 2
				if !thorough && x%3 != 0 {
					continue // quick: one assignment of the other edges in three
				}
			}
			// $id mode per document: 0 none, 1 = retrieval, 2 = canonical alias
			nm := 1
			for range sh.docs {
				nm *= 3
			}
			for mv := 0; mv < nm; mv++ {
				mode := map[string]int{}
				x := mv
				alias := false
				for _, d := range sh.docs {
					mode[d] = x % 3
					x /= 3
					if mode[d] == 2 {
						alias = true
					}
				}
				needC := false
				okC := true
				for _, e := range sh.edges {
					if e.viaC {
						needC = true
						if mode[e.to] != 2 {
							okC = false
						}
					}
				}
				if needC && !okC {
					continue
				}
				if !thorough && len(sh.docs) == 3 && mv%2 == 1 {
					continue
				}
				for _, rel := range []bool{false, true} {
					if rel && alias {
						continue // relative spellings are resolved against the canonical base: covered by Worlds
					}
					props := map[string][]string{}
					y := fv
					if dangEdge >= 0 {
						y = (fv - nf) / (2 * ne) * 7 // some assignment of the other edges
					}
					for ei, e := range sh.edges {
						fr := fragForms[y%3]
						y /= 3
						if ei == dangEdge {
							fr = dangForm
						}
						target := retr[e.to]
						if e.viaC {
							target = canon[e.to]
						} else if rel {
							target = relFrom[e.from][e.to]
						}
						props[e.from] = append(props[e.from], fmt.Sprintf(`%q:{"$ref":%q}`, e.prop, target+fr))
					}
					mk := func(d string, id string) string {
						var parts []string
						if id != "" {
							parts = append(parts, fmt.Sprintf(`"$id":%q`, id))
						}
						n := docNum[d]
						parts = append(parts, `"type":"object"`)
						if len(props[d]) > 0 {
							parts = append(parts, `"properties":{`+strings.Join(props[d], ",")+`}`)
						}
						defs := fmt.Sprintf(`"t":{"const":%d},"a":{"$anchor":"k","const":%d}`, 10*n+1, 10*n+2)
						if d == "R" {
							defs += `,"e":{"$id":"http://h/emb.json","type":"object","properties":{"z":{"const":40}},"$defs":{"t":{"const":41},"a":{"$anchor":"k","const":42}}}`
						}
						if d == "D1" {
							defs += `,"e":{"$id":"http://h/d1emb.json","type":"object","properties":{"z":{"const":50}},"$defs":{"t":{"const":51},"a":{"$anchor":"k","const":52}}}`
						}
						parts = append(parts, `"$defs":{`+defs+`}`)
						return "{" + strings.Join(parts, ",") + "}"
					}
					docs := map[string]string{}
					for _, d := range sh.docs {
						id := ""
						switch mode[d] {
						case 1:
							id = retr[d]
						case 2:
							id = canon[d]
						}
						docs[retr[d]] = mk(d, id)
					}
					u := &Universe{Root: mk("R", ""), Base: retr["R"], Docs: docs, Kind: sh.name}
					leaves := []string{`{}`, `1`, `11`, `12`, `21`, `22`, `31`, `32`, `41`, `42`, `51`, `52`, `{"z":40}`, `{"z":50}`, `{"z":1}`}
					for _, l := range leaves {
						for _, p1 := range []string{"p", "q"} {
							u.Insts = append(u.Insts, fmt.Sprintf(`{%q:%s}`, p1, l))
							for _, p2 := range []string{"n", "m"} {
								u.Insts = append(u.Insts, fmt.Sprintf(`{%q:{%q:%s}}`, p1, p2, l))
								u.Insts = append(u.Insts, fmt.Sprintf(`{%q:{%q:{"n":%s}}}`, p1, p2, l))
							}
						}
					}
					yield(u, fmt.Sprintf("%s frag=%d idmodes=%d rel=%v", sh.name, fv, mv, rel), alias)
				}
			}
		}
	}
}

// WorldsSpecial: base URIs, $id values and references whose paths contain characters that
// net/url only preserves through RawPath (sub-delims, percent-encoded reserved characters).
func WorldsSpecial(yield func(u *Universe, desc string)) {
	roots := []string{"", "http://h/a(v2)/root.json", "http://h/a%2Fb/root.json", "http://h/it's!*/root.json", "http://h/dir/root[1].json"}
	bases := []string{"http://h/b(1)/base.json", "http://h/b%2Fc/base.json", "http://h/plain/base.json", "http://h/dir/sub/"} // the last: a base that is a directory (trailing slash)
	eids := []string{"e(1).json", "x%2Fy.json", "e.json", "http://h/abs(2)/e.json"}
	refs := []string{"#/$defs/a+b", "#/$defs/a%20b", "#/$defs/a%2Bb", "root.json#/$defs/a+b", "#/allOf/9223372036854775808", "#/allOf/18446744073709551615", "#/allOf/0", "#/$defs/t", "#k", "#/$defs/e", "e(1).json", "e(1).json#k", "x%2Fy.json", "x%2Fy.json#/$defs/t", "x/y.json", "e.json#k", "http://h/abs(2)/e.json#k", "e%281%29.json", "base.json#k", "root.json#k", "./e(1).json#/$defs/t"}
	for _, base := range bases {
		for _, rid := range roots {
			for _, eid := range eids {
				for _, ref := range refs {
					for _, inE := range []bool{false, true} {
						probe := fmt.Sprintf(`{"$ref":%q}`, ref)
						eDefs := `"t":{"const":4},"a":{"$anchor":"k","const":5}`
						ptr := "#/$defs/probe"
						if inE {
							eDefs += `,"probe":` + probe
							ptr = "#/$defs/e/$defs/probe"
						}
						e := fmt.Sprintf(`{"$id":%q,"const":3,"$defs":{%s}}`, eid, eDefs)
						defs := `"t":{"const":1},"a":{"$anchor":"k","const":2},"a+b":{"const":6},"a b":{"const":7},"e":` + e
						if !inE {
							defs += `,"probe":` + probe
						}
						var parts []string
						if rid != "" {
							parts = append(parts, fmt.Sprintf(`"$id":%q`, rid))
						}
						parts = append(parts, `"allOf":[{"type":"object"}]`, `"type":"object"`, `"properties":{"p":{"$ref":"`+ptr+`"}}`, `"$defs":{`+defs+`}`)
						u := &Universe{Root: "{" + strings.Join(parts, ",") + "}", Base: base, Docs: map[string]string{}, Kind: "world-special"}
						for _, v := range []string{"1", "2", "3", "4", "5", "6", "7", "9", `{"p":1}`} {
							u.Insts = append(u.Insts, `{"p":`+v+`}`)
						}
						yield(u, fmt.Sprintf("base=%q rootid=%q eid=%q inE=%v ref=%q", base, rid, eid, inE, ref))
					}
				}
			}
		}
	}
}

// Worlds07: the single-document worlds in draft-07 spelling: `definitions`, anchors as fragment-only
// `$id`, and resource `$id`s with and without a trailing empty fragment ("e.json#" names the same
// resource as "e.json"; it is the spelling the draft-07 meta-schema itself uses).
func Worlds07(yield func(u *Universe, desc string)) {
	// a document root that has a $ref beside its $id: draft-07 ignores the $id there too, so relative
	// references resolve against the retrieval URI (the two candidate targets carry different markers)
	for i, w := range []struct{ root, mid string }{
		{`{"$schema":"http://json-schema.org/draft-07/schema#","$id":"http://other/dir/root.json","$ref":"e.json"}`, ``},
		{`{"$schema":"http://json-schema.org/draft-07/schema#","$id":"sub/root.json","$ref":"e.json"}`, ``},
		{`{"$schema":"http://json-schema.org/draft-07/schema#","allOf":[{"$ref":"mid.json"}]}`, `{"$id":"http://other/dir/mid.json","$ref":"e.json"}`},
		{`{"$schema":"http://json-schema.org/draft-07/schema#","$id":"http://h/root.json","properties":{"p":{"$ref":"mid.json"}}}`, `{"$id":"sub/mid.json","$ref":"e.json","definitions":{"x":{"$ref":"e.json"}}}`},
	} {
		docs := map[string]string{"http://h/e.json": `{"const":1}`, "http://other/dir/e.json": `{"const":2}`, "http://h/sub/e.json": `{"const":3}`}
		if w.mid != "" {
			docs["http://h/mid.json"] = w.mid
		}
		u := &Universe{Root: w.root, Base: "http://h/root.json", Docs: docs, Kind: "world-07"}
		for _, v := range []string{"1", "2", "3", "9"} {
			u.Insts = append(u.Insts, v, `{"p":`+v+`}`)
		}
		yield(u, fmt.Sprintf("draft-07 root with $id beside $ref, variant %d", i))
	}
	roots := []string{"", "http://h/root.json#", "http://h/dir/root.json", "root.json#"}
	eids := []string{"e.json#", "http://h/dir/x.json#", "dir/e.json", "e.json", "http://h/dir/x.json"}
	refs := []string{"#", "#/definitions/t", "#k", "#/definitions/e", "#/definitions/e/definitions/t", "e.json", "e.json#", "e.json#k", "e.json#/definitions/t", "http://h/dir/x.json", "http://h/dir/x.json#", "http://h/dir/x.json#k", "http://h/dir/x.json#/definitions/t",
		"dir/e.json#k", "http://h/root.json", "http://h/root.json#/definitions/t", "root.json#k", "http://h/e.json#k", "http://h/dir/e.json#/definitions/t", "http://h/dir/root.json#k", "http://h/dir/dir/e.json", "#nope", "e.json#nope"}
	for _, base := range []string{"http://h/root.json", "http://h/dir/base.json", "http://h/dir/", ""} {
		for _, rid := range roots {
			for _, eid := range eids {
				for _, ref := range refs {
					for _, inE := range []bool{false, true} {
						probe := fmt.Sprintf(`{"$ref":%q}`, ref)
						eDefs := `"t":{"const":4},"a":{"$id":"#k","const":5}`
						ptr := "#/definitions/probe"
						if inE {
							eDefs += `,"probe":` + probe
							ptr = "#/definitions/e/definitions/probe"
						}
						e := fmt.Sprintf(`{"$id":%q,"const":3,"definitions":{%s}}`, eid, eDefs)
						defs := `"t":{"const":1},"a":{"$id":"#k","const":2},"e":` + e
						if !inE {
							defs += `,"probe":` + probe
						}
						parts := []string{`"$schema":"http://json-schema.org/draft-07/schema#"`}
						if rid != "" {
							parts = append(parts, fmt.Sprintf(`"$id":%q`, rid))
						}
						parts = append(parts, `"type":"object"`, `"properties":{"p":{"$ref":"`+ptr+`"}}`, `"definitions":{`+defs+`}`)
						u := &Universe{Root: "{" + strings.Join(parts, ",") + "}", Base: base, Docs: map[string]string{}, Kind: "world-07"}
						for _, v := range []string{"1", "2", "3", "4", "5", "9", `{"p":1}`, `{"p":{"p":3}}`} {
							u.Insts = append(u.Insts, `{"p":`+v+`}`)
						}
						yield(u, fmt.Sprintf("draft-07 base=%q rootid=%q eid=%q inE=%v ref=%q", base, rid, eid, inE, ref))
					}
				}
			}
		}
	}
}
