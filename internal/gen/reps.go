package gen

import (
	"encoding/json"
	"fmt"
	"math"
	"math/big"
	"reflect"
	"sort"
	"strings"

	"verif/internal/ref"
)

// Named types used by G-rep.
type (
	MyInt   int64
	MyFloat float64
	MyStr   string
	MyBool  bool
	MySlice []any
	MyMap   map[string]any
	MyKey   string
)

// A Rep is one Go representation of a JSON value.
type Rep struct {
	V    any
	Desc string // Go-syntax-like description, stable across runs
	Dev  int    // number of nodes that deviate from the canonical decoding
}

// numStyle builds a number leaf in one Go type, or reports that the value does
// not fit that type exactly.
type numStyle struct {
	name string
	mk   func(r *big.Rat) (reflect.Value, bool)
}

func intStyle(name string, t reflect.Type, min, max int64) numStyle {
	return numStyle{name, func(r *big.Rat) (reflect.Value, bool) {
		if !r.IsInt() || !r.Num().IsInt64() {
			return reflect.Value{}, false
		}
		i := r.Num().Int64()
		if i < min || i > max {
			return reflect.Value{}, false
		}
		v := reflect.New(t).Elem()
		v.SetInt(i)
		return v, true
	}}
}

func uintStyle(name string, t reflect.Type, max uint64) numStyle {
	return numStyle{name, func(r *big.Rat) (reflect.Value, bool) {
		if !r.IsInt() || !r.Num().IsUint64() {
			return reflect.Value{}, false
		}
		u := r.Num().Uint64()
		if u > max {
			return reflect.Value{}, false
		}
		v := reflect.New(t).Elem()
		v.SetUint(u)
		return v, true
	}}
}

func jnStyle(name string, text func(r *big.Rat) (string, bool)) numStyle {
	return numStyle{name, func(r *big.Rat) (reflect.Value, bool) {
		s, ok := text(r)
		if !ok {
			return reflect.Value{}, false
		}
		back, ok := new(big.Rat).SetString(s)
		if !ok || back.Cmp(r) != 0 {
			return reflect.Value{}, false
		}
		return reflect.ValueOf(json.Number(s)), true
	}}
}

var numStyles = []numStyle{
	{"float64", func(r *big.Rat) (reflect.Value, bool) {
		f, exact := r.Float64()
		if !exact || math.IsInf(f, 0) {
			return reflect.Value{}, false
		}
		return reflect.ValueOf(f), true
	}},
	{"float32", func(r *big.Rat) (reflect.Value, bool) {
		f, exact := r.Float32()
		if !exact || math.IsInf(float64(f), 0) {
			return reflect.Value{}, false
		}
		return reflect.ValueOf(f), true
	}},
	intStyle("int", reflect.TypeOf(int(0)), math.MinInt64, math.MaxInt64),
	intStyle("int8", reflect.TypeOf(int8(0)), math.MinInt8, math.MaxInt8),
	intStyle("int16", reflect.TypeOf(int16(0)), math.MinInt16, math.MaxInt16),
	intStyle("int32", reflect.TypeOf(int32(0)), math.MinInt32, math.MaxInt32),
	intStyle("int64", reflect.TypeOf(int64(0)), math.MinInt64, math.MaxInt64),
	uintStyle("uint", reflect.TypeOf(uint(0)), math.MaxUint64),
	uintStyle("uint8", reflect.TypeOf(uint8(0)), math.MaxUint8),
	uintStyle("uint16", reflect.TypeOf(uint16(0)), math.MaxUint16),
	uintStyle("uint32", reflect.TypeOf(uint32(0)), math.MaxUint32),
	uintStyle("uint64", reflect.TypeOf(uint64(0)), math.MaxUint64),
	uintStyle("uintptr", reflect.TypeOf(uintptr(0)), math.MaxUint64),
	jnStyle("json.Number", func(r *big.Rat) (string, bool) { return ref.NumText(r), true }),
	jnStyle("json.Number.0", func(r *big.Rat) (string, bool) {
		if !r.IsInt() {
			return "", false
		}
		return r.Num().String() + ".0", true
	}),
	jnStyle("json.Number.e0", func(r *big.Rat) (string, bool) {
		if !r.IsInt() {
			return "", false
		}
		return r.Num().String() + "e0", true
	}),
	jnStyle("json.Number.e-1", func(r *big.Rat) (string, bool) {
		t := new(big.Rat).Mul(r, big.NewRat(10, 1))
		if !t.IsInt() {
			return "", false
		}
		return t.Num().String() + "e-1", true
	}),
	jnStyle("json.Number.e+1", func(r *big.Rat) (string, bool) {
		t := new(big.Rat).Quo(r, big.NewRat(10, 1))
		if !t.IsInt() || r.Sign() == 0 {
			return "", false
		}
		return t.Num().String() + "e+1", true
	}),
	jnStyle("json.Number.E+0", func(r *big.Rat) (string, bool) {
		if !r.IsInt() {
			return "", false
		}
		return r.Num().String() + "E+0", true
	}),
	// zero has further spellings: a sign, and a float64 negative zero
	jnStyle("json.Number.-0", func(r *big.Rat) (string, bool) {
		if r.Sign() != 0 {
			return "", false
		}
		return "-0", true
	}),
	jnStyle("json.Number.-0.0e1", func(r *big.Rat) (string, bool) {
		if r.Sign() != 0 {
			return "", false
		}
		return "-0.0e1", true
	}),
	{"float64(-0)", func(r *big.Rat) (reflect.Value, bool) {
		if r.Sign() != 0 {
			return reflect.Value{}, false
		}
		return reflect.ValueOf(math.Copysign(0, -1)), true
	}},
	intStyle("MyInt", reflect.TypeOf(MyInt(0)), math.MinInt64, math.MaxInt64),
	{"MyFloat", func(r *big.Rat) (reflect.Value, bool) {
		f, exact := r.Float64()
		if !exact || math.IsInf(f, 0) {
			return reflect.Value{}, false
		}
		return reflect.ValueOf(MyFloat(f)), true
	}},
}

// container / scalar styles
var (
	strStyles  = []string{"string", "MyStr"}
	boolStyles = []string{"bool", "MyBool"}
	arrStyles  = []string{"[]any", "[]T", "[n]any", "[n]T", "MySlice"}
	objStyles  = []string{"map[string]any", "map[string]T", "map[MyKey]any", "MyMap", "map[MyKey]T", "map[json.Number]any"}
	wrapStyles = []string{"", "*", "**", "*any"} // "*any": a pointer to an interface that holds the value
)

// RepOpts selects sub-families of G-rep (C08 excludes nothing; C11 wants all).
type RepOpts struct {
	NoJSONNumber bool
	NoFloat32    bool
	NoWrap       bool
}

// nodeChoice is the (style, wrap) chosen for one node; the zero value is the
// canonical decoding.
type nodeChoice struct{ style, wrap int }

var anyType = reflect.TypeOf((*any)(nil)).Elem()

// build constructs the Go value for v under the per-node choices (pre-order
// node numbering). It returns false if some choice is not applicable.
func build(v *ref.Val, ch []nodeChoice, idx *int) (reflect.Value, bool) {
	c := nodeChoice{}
	if *idx < len(ch) {
		c = ch[*idx]
	}
	*idx++
	var out reflect.Value
	switch v.K {
	case ref.Null:
		if c.style != 0 {
			return out, false
		}
		switch c.wrap {
		case 0:
			return reflect.Zero(anyType), true // nil interface
		case 1:
			return reflect.ValueOf((*int)(nil)), true
		case 2:
			var p *int
			return reflect.ValueOf(&p), true // pointer to nil pointer
		case 3:
			var a any
			return reflect.ValueOf(&a), true // pointer to nil interface
		}
		return out, false
	case ref.Bool:
		switch c.style {
		case 0:
			out = reflect.ValueOf(v.B)
		case 1:
			out = reflect.ValueOf(MyBool(v.B))
		default:
			return out, false
		}
	case ref.Num:
		if c.style >= len(numStyles) {
			return out, false
		}
		x, ok := numStyles[c.style].mk(v.N)
		if !ok {
			return out, false
		}
		out = x
	case ref.Str:
		switch c.style {
		case 0:
			out = reflect.ValueOf(v.S)
		case 1:
			out = reflect.ValueOf(MyStr(v.S))
		default:
			return out, false
		}
	case ref.Arr:
		kids := make([]reflect.Value, len(v.A))
		for i, e := range v.A {
			k, ok := build(e, ch, idx)
			if !ok {
				return out, false
			}
			kids[i] = k
		}
		et := anyType
		typed := c.style == 1 || c.style == 3
		if typed {
			if len(kids) == 0 {
				et = reflect.TypeOf(int(0))
			} else {
				et = kids[0].Type()
				for _, k := range kids {
					if k.Type() != et {
						return out, false
					}
				}
				if et == anyType {
					return out, false // would equal the untyped style
				}
			}
		}
		switch c.style {
		case 0, 1:
			out = reflect.MakeSlice(reflect.SliceOf(et), len(kids), len(kids))
		case 2, 3:
			out = reflect.New(reflect.ArrayOf(len(kids), et)).Elem()
		case 4:
			out = reflect.MakeSlice(reflect.TypeOf(MySlice(nil)), len(kids), len(kids))
		default:
			return out, false
		}
		for i, k := range kids {
			out.Index(i).Set(k)
		}
	case ref.Obj:
		kids := make([]reflect.Value, len(v.Keys))
		for i, key := range v.Keys {
			k, ok := build(v.O[key], ch, idx)
			if !ok {
				return out, false
			}
			kids[i] = k
		}
		et := anyType
		typed := c.style == 1 || c.style == 4
		if typed {
			if len(kids) == 0 {
				et = reflect.TypeOf(int(0))
			} else {
				et = kids[0].Type()
				for _, k := range kids {
					if k.Type() != et {
						return out, false
					}
				}
				if et == anyType {
					return out, false
				}
			}
		}
		kt := reflect.TypeOf("")
		switch c.style {
		case 0, 1:
			out = reflect.MakeMap(reflect.MapOf(kt, et))
		case 2, 4:
			kt = reflect.TypeOf(MyKey(""))
			out = reflect.MakeMap(reflect.MapOf(kt, et))
		case 3:
			out = reflect.MakeMap(reflect.TypeOf(MyMap(nil)))
		case 5:
			// a string-kind key type that is also the library's carrier of numbers: keys stay strings
			kt = reflect.TypeOf(json.Number(""))
			out = reflect.MakeMap(reflect.MapOf(kt, et))
		default:
			return out, false
		}
		for i, key := range v.Keys {
			kv := reflect.New(kt).Elem()
			kv.SetString(key)
			out.SetMapIndex(kv, kids[i])
		}
	}
	if c.wrap == 3 {
		p := reflect.New(anyType)
		p.Elem().Set(out)
		return p, true
	}
	for w := 0; w < c.wrap; w++ {
		p := reflect.New(out.Type())
		p.Elem().Set(out)
		out = p
	}
	return out, true
}

func nStyles(v *ref.Val) int {
	switch v.K {
	case ref.Null:
		return 1
	case ref.Bool:
		return len(boolStyles)
	case ref.Num:
		return len(numStyles)
	case ref.Str:
		return len(strStyles)
	case ref.Arr:
		return len(arrStyles)
	case ref.Obj:
		return len(objStyles)
	}
	return 1
}

func flatten(v *ref.Val, out *[]*ref.Val) {
	*out = append(*out, v)
	for _, e := range v.A {
		flatten(e, out)
	}
	for _, k := range v.Keys {
		flatten(v.O[k], out)
	}
}

func allowed(v *ref.Val, c nodeChoice, o RepOpts) bool {
	if o.NoWrap && c.wrap != 0 {
		return false
	}
	if v.K == ref.Num {
		n := numStyles[c.style].name
		if o.NoJSONNumber && strings.HasPrefix(n, "json.Number") {
			return false
		}
		if o.NoFloat32 && n == "float32" {
			return false
		}
	}
	return true
}

// Reps enumerates Go representations of v: the full product of per-node
// (style, wrap) choices when the value has at most fullNodes nodes, otherwise
// every assignment with at most dev deviating nodes plus every uniform styling
// (all number leaves in one style, all containers in one style).
func Reps(v *ref.Val, fullNodes, dev int, o RepOpts) []Rep {
	var nodes []*ref.Val
	flatten(v, &nodes)
	n := len(nodes)
	seen := map[string]bool{}
	var out []Rep
	emit := func(ch []nodeChoice) {
		i := 0
		rv, ok := build(v, ch, &i)
		if !ok {
			return
		}
		var x any
		if rv.IsValid() && !(rv.Kind() == reflect.Interface && rv.IsNil()) {
			x = rv.Interface()
		}
		d := Describe(x)
		if seen[d] {
			return
		}
		seen[d] = true
		nd := 0
		for _, c := range ch {
			if c != (nodeChoice{}) {
				nd++
			}
		}
		out = append(out, Rep{V: x, Desc: d, Dev: nd})
	}
	choices := func(i int) []nodeChoice {
		var cs []nodeChoice
		for s := 0; s < nStyles(nodes[i]); s++ {
			for w := range wrapStyles {
				c := nodeChoice{s, w}
				if allowed(nodes[i], c, o) {
					cs = append(cs, c)
				}
			}
		}
		return cs
	}
	if n <= fullNodes {
		ch := make([]nodeChoice, n)
		var rec func(i int)
		rec = func(i int) {
			if i == n {
				emit(append([]nodeChoice(nil), ch...))
				return
			}
			for _, c := range choices(i) {
				ch[i] = c
				rec(i + 1)
			}
		}
		rec(0)
		return out
	}
	// bounded deviations
	ch := make([]nodeChoice, n)
	emit(ch)
	var rec func(start, left int)
	rec = func(start, left int) {
		if left == 0 {
			return
		}
		for i := start; i < n; i++ {
			for _, c := range choices(i) {
				if c == (nodeChoice{}) {
					continue
				}
				ch[i] = c
				emit(append([]nodeChoice(nil), ch...))
				rec(i+1, left-1)
				ch[i] = nodeChoice{}
			}
		}
	}
	rec(0, dev)
	// uniform stylings: one number style for all leaves x one container style pair x wrap of root
	for ns := 0; ns < len(numStyles); ns++ {
		for as := 0; as < len(arrStyles); as++ {
			for os := 0; os < len(objStyles); os++ {
				u := make([]nodeChoice, n)
				okAll := true
				for i, nd := range nodes {
					switch nd.K {
					case ref.Num:
						u[i].style = ns
					case ref.Arr:
						u[i].style = as
					case ref.Obj:
						u[i].style = os
					}
					if !allowed(nd, u[i], o) {
						okAll = false
					}
				}
				if okAll {
					emit(u)
				}
			}
		}
	}
	// alternating stylings: every container in one untyped style (any-elements), the number leaves
	// alternating between the canonical float64 and one other style (equal values in one container
	// of the same Go type, carried differently)
	for ns := 1; ns < len(numStyles); ns++ {
		for _, as := range []int{0, 2} { // []any, [n]any
			for _, os := range []int{0, 2} { // map[string]any, map[MyKey]any
				u := make([]nodeChoice, n)
				okAll, leaf := true, 0
				for i, nd := range nodes {
					switch nd.K {
					case ref.Num:
						if leaf%2 == 1 {
							u[i].style = ns
						}
						leaf++
					case ref.Arr:
						u[i].style = as
					case ref.Obj:
						u[i].style = os
					}
					if !allowed(nd, u[i], o) {
						okAll = false
					}
				}
				if okAll && leaf > 1 {
					emit(u)
				}
			}
		}
	}
	return out
}

// Describe renders a Go value with its dynamic types, deterministically.
func Describe(x any) string {
	var b strings.Builder
	describe(&b, reflect.ValueOf(x), true)
	return b.String()
}

func typeName(t reflect.Type) string {
	s := t.String()
	s = strings.ReplaceAll(s, "interface {}", "any")
	s = strings.ReplaceAll(s, "gen.", "")
	return s
}

func describe(b *strings.Builder, v reflect.Value, withType bool) {
	if !v.IsValid() {
		b.WriteString("nil")
		return
	}
	switch v.Kind() {
	case reflect.Interface:
		if v.IsNil() {
			b.WriteString("nil")
			return
		}
		describe(b, v.Elem(), true)
	case reflect.Pointer:
		if v.IsNil() {
			fmt.Fprintf(b, "(%s)(nil)", typeName(v.Type()))
			return
		}
		b.WriteString("&")
		describe(b, v.Elem(), true)
	case reflect.Slice, reflect.Array:
		b.WriteString(typeName(v.Type()))
		b.WriteByte('{')
		for i := 0; i < v.Len(); i++ {
			if i > 0 {
				b.WriteString(", ")
			}
			describe(b, v.Index(i), false)
		}
		b.WriteByte('}')
	case reflect.Map:
		b.WriteString(typeName(v.Type()))
		b.WriteByte('{')
		keys := v.MapKeys()
		sort.Slice(keys, func(i, j int) bool { return keys[i].String() < keys[j].String() })
		for i, k := range keys {
			if i > 0 {
				b.WriteString(", ")
			}
			fmt.Fprintf(b, "%q: ", k.String())
			describe(b, v.MapIndex(k), false)
		}
		b.WriteByte('}')
	case reflect.String:
		if withType || v.Type() != reflect.TypeOf("") {
			fmt.Fprintf(b, "%s(%q)", typeName(v.Type()), v.String())
		} else {
			fmt.Fprintf(b, "%q", v.String())
		}
	default:
		if withType {
			fmt.Fprintf(b, "%s(%v)", typeName(v.Type()), v.Interface())
		} else {
			fmt.Fprintf(b, "%v", v.Interface())
		}
	}
}

// Describe2 is Describe that tolerates values outside the JSON domain (funcs, chans, structs).
func Describe2(x any) (s string) {
	defer func() {
		if recover() != nil {
			s = fmt.Sprintf("%T", x)
		}
	}()
	v := reflect.ValueOf(x)
	if v.IsValid() {
		switch v.Kind() {
		case reflect.Func, reflect.Chan, reflect.Complex64, reflect.Complex128, reflect.Struct:
			return fmt.Sprintf("%T", x)
		}
	}
	return fmt.Sprintf("%T:", x) + Describe(x)
}
