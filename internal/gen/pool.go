package gen

import "verif/internal/ref"

// G-json: the instance pool as JSON texts. All numbers are exact in float64
// unless marked big.
var (
	NumTexts = []string{"-1", "0", "1", "2", "3", "0.5", "1.5", "0.75", "4.5", "-3", "127", "128", "255", "256",
		"2147483647", "2147483648", "9007199254740991", "9007199254740992", "9007199254740994",
		"-9223372036854775808", "1e300",
		// dyadic near-multiples: 1+2^-32 and 2^-30 (exact in float64; not a multiple of 1, 0.5, 0.25 or 2, however close the quotient is to an integer)
		"1.00000000023283064365386962890625", "0.000000000931322574615478515625"}
	// only where a property quantifies over 64-bit integer texts
	BigNumTexts = []string{"9007199254740993", "9223372036854775807", "9223372036854775808", "18446744073709551615"}
	StrTexts    = []string{`""`, `"a"`, `"b"`, `"ab"`, "\"é\"", "\"é\"", "\"\U0001F600\"", "\"\U0001F600\U0001F4A9\U0001D11E\"", "\"\U0001D11E\U0001D11E\U0001D11E\U0001D11E\U0001D11E\"", "\"abcd\"", "\"ab\U0001F600\""}
	ArrTexts    = []string{`[0,-0]`, `[[0],[-0.0]]`, `[{"a":0},{"a":-0}]`, `[]`, `[1]`, `[1,1]`, `[1,1.0]`, `[1,"a"]`, `[1,2,3]`, `[[1]]`, `[{}]`, `[{"a":1},{"a":1.0}]`, `["a","b"]`, `[null]`, `[1,2]`, `["x",1]`, `[0]`, `[{"a":1,"b":2},{"b":2,"a":1}]`, `[false,0]`, `[[],[]]`, `[1,2,3,4]`, `[null,null]`, `[null,false]`, `[true,"\u0001"]`, `[["ab","c"],["a","bc"]]`, `[{"a":"bc"},{"ab":"c"}]`, `["",[]]`, `[0,"0"]`, `[[1,2],[12]]`, `[{"a":1,"b":2},{"a":12}]`,
		`[[1],["a"]]`, `[[[1]]]`, `[{"a":1},{"b":"x"}]`, `[[1,"a"]]`, `["a",["a"]]`}
	ObjTexts = []string{`{}`, `{"a":1}`, `{"b":1}`, `{"a":1,"b":2}`, `{"a":"x"}`, `{"a":{"a":1}}`, `{"ab":1}`, `{"a":null}`,
		"{\"é\":1}", "{\"é\":1}", `{"c":1}`, `{"a":1,"b":2,"c":3}`, `{"a":[1]}`, `{"b":"x"}`, `{"a":1,"c":"x"}`, `{"b":null}`, `{"b":0}`, `{"a":[]}`, `{"a":{}}`, `{"ba":1}`,
		`{"a":{"b":1},"b":"x"}`, `{"a":[{"a":1}]}`, `{"a":{"a":{"a":1}}}`, `{"a":{"a":"x"}}`, `{"a":[1,"a"]}`, `{"a":{"a":1},"b":{"a":"x"}}`}
	OtherTexts = []string{`null`, `true`, `false`}
)

// Pool returns the standard instance pool.
func Pool() []*ref.Val {
	var out []*ref.Val
	for _, g := range [][]string{OtherTexts, NumTexts, StrTexts, ArrTexts, ObjTexts} {
		for _, t := range g {
			out = append(out, ref.MustParse(t))
		}
	}
	return out
}

// Vals parses a list of texts.
func Vals(texts ...string) []*ref.Val {
	out := make([]*ref.Val, len(texts))
	for i, t := range texts {
		out[i] = ref.MustParse(t)
	}
	return out
}
