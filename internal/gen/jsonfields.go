package gen

import (
	"bytes"
	"encoding/json"
	"reflect"
	"sort"
	"strings"
	"unicode"
)

// JSONField is one field encoding/json emits for a struct type.
type JSONField struct {
	Name      string
	Index     []int
	Type      reflect.Type
	Tagged    bool
	OmitEmpty bool
	OmitZero  bool
	Embedded  bool // comes from an anonymous field that is treated as an ordinary field
}

func validTagName(s string) bool {
	if s == "" {
		return false
	}
	for _, c := range s {
		switch {
		case strings.ContainsRune("!#$%&()*+-./:;<=>?@[]^_{|}~ ", c):
		case !unicode.IsLetter(c) && !unicode.IsDigit(c):
			return false
		}
	}
	return true
}

// JSONFields is an independent implementation of encoding/json's field
// selection (typeFields: breadth-first over embedded structs, dominant field
// per name), written from the documentation of Marshal. It is validated
// against json.Marshal itself by KeysOfMarshal.
func JSONFields(t reflect.Type) []JSONField {
	type fld struct {
		JSONField
		depth int
	}
	current := []fld{}
	next := []fld{{JSONField: JSONField{Type: t}}}
	var count, nextCount map[reflect.Type]int
	visited := map[reflect.Type]bool{}
	var fields []fld
	for len(next) > 0 {
		current, next = next, current[:0]
		count, nextCount = nextCount, map[reflect.Type]int{}
		for _, f := range current {
			if visited[f.Type] {
				continue
			}
			visited[f.Type] = true
			for i := 0; i < f.Type.NumField(); i++ {
				sf := f.Type.Field(i)
				if sf.Anonymous {
					et := sf.Type
					if et.Kind() == reflect.Pointer {
						et = et.Elem()
					}
					if !sf.IsExported() && et.Kind() != reflect.Struct {
						continue
					}
				} else if !sf.IsExported() {
					continue
				}
				tag := sf.Tag.Get("json")
				if tag == "-" {
					continue
				}
				name, opts, _ := strings.Cut(tag, ",")
				if !validTagName(name) {
					name = ""
				}
				index := append(append([]int(nil), f.Index...), i)
				ft := sf.Type
				if ft.Name() == "" && ft.Kind() == reflect.Pointer {
					ft = ft.Elem()
				}
				if name != "" || !sf.Anonymous || ft.Kind() != reflect.Struct {
					tagged := name != ""
					if name == "" {
						name = sf.Name
					}
					nf := fld{JSONField{Name: name, Index: index, Type: sf.Type, Tagged: tagged, Embedded: sf.Anonymous}, len(index)}
					for _, o := range strings.Split(opts, ",") {
						switch o {
						case "omitempty":
							nf.OmitEmpty = true
						case "omitzero":
							nf.OmitZero = true
						}
					}
					fields = append(fields, nf)
					if count[f.Type] > 1 {
						fields = append(fields, nf) // the same field reached twice: ambiguous
					}
					continue
				}
				nextCount[ft]++
				if nextCount[ft] == 1 {
					next = append(next, fld{JSONField: JSONField{Name: ft.Name(), Index: index, Type: ft}})
				}
			}
		}
	}
	sort.SliceStable(fields, func(i, j int) bool {
		a, b := fields[i], fields[j]
		if a.Name != b.Name {
			return a.Name < b.Name
		}
		if a.depth != b.depth {
			return a.depth < b.depth
		}
		if a.Tagged != b.Tagged {
			return a.Tagged
		}
		return lessIndex(a.Index, b.Index)
	})
	var out []JSONField
	for i := 0; i < len(fields); {
		j := i + 1
		for j < len(fields) && fields[j].Name == fields[i].Name {
			j++
		}
		if j == i+1 {
			out = append(out, fields[i].JSONField)
		} else if !(fields[i+1].depth == fields[i].depth && fields[i+1].Tagged == fields[i].Tagged) {
			out = append(out, fields[i].JSONField) // dominant field
		}
		i = j
	}
	sort.SliceStable(out, func(i, j int) bool { return lessIndex(out[i].Index, out[j].Index) })
	return out
}

func lessIndex(a, b []int) bool {
	for k := 0; k < len(a) && k < len(b); k++ {
		if a[k] != b[k] {
			return a[k] < b[k]
		}
	}
	return len(a) < len(b)
}

// KeysOfMarshal returns the top-level object keys json.Marshal emits for v, in
// order, read from the token stream.
func KeysOfMarshal(v reflect.Value) ([]string, bool) {
	p := reflect.New(v.Type())
	p.Elem().Set(v)
	b, err := json.Marshal(p.Interface())
	if err != nil {
		return nil, false
	}
	dec := json.NewDecoder(bytes.NewReader(b))
	tok, err := dec.Token()
	if err != nil || tok != json.Delim('{') {
		return nil, false
	}
	var keys []string
	for dec.More() {
		k, err := dec.Token()
		if err != nil {
			return nil, false
		}
		keys = append(keys, k.(string))
		var skip json.RawMessage
		if err := dec.Decode(&skip); err != nil {
			return nil, false
		}
	}
	return keys, true
}
