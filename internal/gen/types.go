package gen

import (
	"fmt"
	"log/slog"
	"math"
	"math/big"
	"reflect"
	"strings"
	"time"
)

// G-type: Go types (built at run time with reflect, plus a declared catalogue)
// and, per type, an enumeration of values.

// T is one generated type.
type T struct {
	Type  reflect.Type
	Desc  string
	Class string // "basic", "composite", "struct", "catalog", "recursive", "unsupported", "marshaler"
	// Domain flags
	HasMarshaler bool // contains a standard-library marshaler type (excluded from C09)
	Unsupported  bool // contains a kind For documents as unsupported
	Recursive    bool
}

var basicTypes = []reflect.Type{
	reflect.TypeOf(false), reflect.TypeOf(int(0)), reflect.TypeOf(int8(0)), reflect.TypeOf(int16(0)), reflect.TypeOf(int32(0)), reflect.TypeOf(int64(0)),
	reflect.TypeOf(uint(0)), reflect.TypeOf(uint8(0)), reflect.TypeOf(uint16(0)), reflect.TypeOf(uint32(0)), reflect.TypeOf(uint64(0)), reflect.TypeOf(uintptr(0)),
	reflect.TypeOf(float32(0)), reflect.TypeOf(float64(0)), reflect.TypeOf(""),
	reflect.TypeOf((*any)(nil)).Elem(),
	reflect.TypeOf(MyInt(0)), reflect.TypeOf(MyStr("")), reflect.TypeOf(NamedU8(0)),
}

// more named types for the catalogue
type (
	NamedU8     uint8
	NamedF32    float32
	NamedSlice  []int
	NamedMap    map[string]string
	NamedPtr    *int
	NamedStruct struct {
		A int    `json:"a"`
		B string `json:"b,omitempty"`
	}
)

func compose(inner []reflect.Type) []reflect.Type {
	var out []reflect.Type
	for _, t := range inner {
		out = append(out, reflect.PointerTo(t), reflect.SliceOf(t), reflect.ArrayOf(2, t), reflect.ArrayOf(0, t),
			reflect.MapOf(reflect.TypeOf(""), t), reflect.MapOf(reflect.TypeOf(MyStr("")), t))
	}
	return out
}

// Composites returns every composition of the given depth over the basic types.
func Composites(depth int) []T {
	var out []T
	seen := map[reflect.Type]bool{}
	level := basicTypes
	for d := 1; d <= depth; d++ {
		for _, t := range level {
			if !seen[t] {
				seen[t] = true
				cls := "composite"
				if d == 1 {
					cls = "basic"
				}
				out = append(out, T{Type: t, Desc: t.String(), Class: cls})
			}
		}
		if d < depth {
			level = compose(level)
		}
	}
	return out
}

// FieldTypes is the struct field pool.
var FieldTypes = []reflect.Type{
	reflect.TypeOf(int(0)), reflect.TypeOf(int8(0)), reflect.TypeOf(uint16(0)), reflect.TypeOf(uint64(0)), reflect.TypeOf(float64(0)), reflect.TypeOf(float32(0)),
	reflect.TypeOf(""), reflect.TypeOf(false), reflect.TypeOf((*int)(nil)), reflect.TypeOf([]int(nil)), reflect.TypeOf([2]string{}), reflect.TypeOf(map[string]int(nil)),
	reflect.TypeOf((*any)(nil)).Elem(), reflect.TypeOf((*[]string)(nil)), reflect.TypeOf((**int)(nil)), reflect.TypeOf(struct{ A int }{}), reflect.TypeOf(MyInt(0)),
	reflect.TypeOf((*NamedStruct)(nil)), reflect.TypeOf(NamedStruct{}), reflect.TypeOf([]*int(nil)), reflect.TypeOf(map[string]*int(nil)),
}

// Tags is the json tag pool (",string" is outside the domain).
var Tags = []string{``, `json:"n"`, `json:"n,omitempty"`, `json:",omitempty"`, `json:",omitzero"`, `json:"-"`, `json:"-,"`, `json:"a b"`, `json:"it's"`, `json:"m,omitzero"`, `json:"F1"`}

// Structs enumerates structs of up to nFields fields over the pools.
func Structs(nFields int, typeStride int) []T {
	var out []T
	var rec func(fields []reflect.StructField)
	rec = func(fields []reflect.StructField) {
		if len(fields) > 0 {
			st := reflect.StructOf(fields)
			out = append(out, T{Type: st, Desc: st.String(), Class: "struct"})
		}
		if len(fields) == nFields {
			return
		}
		for ti, ft := range FieldTypes {
			if len(fields) > 0 && ti%typeStride != 0 {
				continue
			}
			for _, tag := range Tags {
				f := reflect.StructField{Name: fmt.Sprintf("F%d", len(fields)), Type: ft, Tag: reflect.StructTag(tag)}
				// JSON-name collisions at the same depth are independent of the field
				// types: enumerate them over three field types only.
				collides := false
				for _, g := range fields {
					if jsonNameOf(g) == jsonNameOf(f) && jsonNameOf(f) != "" {
						collides = true
					}
				}
				if collides {
					small := func(t reflect.Type) bool {
						return t == FieldTypes[0] || t == FieldTypes[6] || t == FieldTypes[8]
					}
					okc := small(ft)
					for _, g := range fields {
						okc = okc && small(g.Type)
					}
					if !okc {
						continue
					}
				}
				rec(append(append([]reflect.StructField(nil), fields...), f))
			}
		}
	}
	rec(nil)
	// an unexported field next to an exported one
	st := reflect.StructOf([]reflect.StructField{{Name: "F0", Type: reflect.TypeOf(0)}, {Name: "f1", PkgPath: "verif/internal/gen", Type: reflect.TypeOf("")}})
	out = append(out, T{Type: st, Desc: st.String(), Class: "struct"})
	return out
}

// ---------------------------------------------------------------------------
// values

var (
	timeType   = reflect.TypeOf(time.Time{})
	levelType  = reflect.TypeOf(slog.Level(0))
	bigIntT    = reflect.TypeOf(big.Int{})
	bigRatT    = reflect.TypeOf(big.Rat{})
	bigFloatT  = reflect.TypeOf(big.Float{})
	marshalers = map[reflect.Type]bool{timeType: true, levelType: true, bigIntT: true, bigRatT: true, bigFloatT: true}
)

// IsMarshalerType reports whether t is one of the standard-library marshaler types For lists.
func IsMarshalerType(t reflect.Type) bool { return marshalers[t] }

// Values enumerates values of t. limit bounds the number returned per type
// node; embedded pointer fields are never nil and maps are never nil (domain).
func Values(t reflect.Type, limit int) []reflect.Value {
	vs := values(t, limit, 0)
	if len(vs) > limit {
		vs = thinValues(vs, limit)
	}
	return vs
}

func thinValues(vs []reflect.Value, limit int) []reflect.Value {
	if len(vs) <= limit {
		return vs
	}
	out := make([]reflect.Value, 0, limit)
	for i := 0; i < limit; i++ {
		out = append(out, vs[i*len(vs)/limit])
	}
	return out
}

func mk(t reflect.Type, set func(v reflect.Value)) reflect.Value {
	v := reflect.New(t).Elem()
	set(v)
	return v
}

func values(t reflect.Type, limit, depth int) []reflect.Value {
	zero := reflect.Zero(t)
	switch t {
	case timeType:
		return []reflect.Value{zero, reflect.ValueOf(time.Date(2020, 2, 29, 23, 59, 59, 123, time.UTC))}
	case levelType:
		return []reflect.Value{zero, reflect.ValueOf(slog.LevelError), reflect.ValueOf(slog.Level(-3))}
	case bigIntT:
		x := new(big.Int).Lsh(big.NewInt(1), 70)
		return []reflect.Value{zero, reflect.ValueOf(*x), reflect.ValueOf(*big.NewInt(-5))}
	case bigRatT:
		return []reflect.Value{zero, reflect.ValueOf(*big.NewRat(1, 3))}
	case bigFloatT:
		return []reflect.Value{zero, reflect.ValueOf(*big.NewFloat(1.5))}
	}
	var out []reflect.Value
	switch t.Kind() {
	case reflect.Bool:
		out = append(out, zero, mk(t, func(v reflect.Value) { v.SetBool(true) }))
	case reflect.Int, reflect.Int8, reflect.Int16, reflect.Int32, reflect.Int64:
		bits := t.Bits()
		min := int64(-1) << (bits - 1)
		max := -(min + 1)
		for _, x := range []int64{0, min, max, 1, -1} {
			x := x
			out = append(out, mk(t, func(v reflect.Value) { v.SetInt(x) }))
		}
	case reflect.Uint, reflect.Uint8, reflect.Uint16, reflect.Uint32, reflect.Uint64, reflect.Uintptr:
		bits := t.Bits()
		max := uint64(math.MaxUint64) >> (64 - bits)
		for _, x := range []uint64{0, max, 1} {
			x := x
			out = append(out, mk(t, func(v reflect.Value) { v.SetUint(x) }))
		}
	case reflect.Float32:
		for _, x := range []float64{0, 1.5, -2, math.MaxFloat32, 1e-3} {
			x := x
			out = append(out, mk(t, func(v reflect.Value) { v.SetFloat(x) }))
		}
	case reflect.Float64:
		for _, x := range []float64{0, 1.5, -2, 1e300, 9007199254740993} {
			x := x
			out = append(out, mk(t, func(v reflect.Value) { v.SetFloat(x) }))
		}
	case reflect.String:
		for _, x := range []string{"", "a", "é"} {
			x := x
			out = append(out, mk(t, func(v reflect.Value) { v.SetString(x) }))
		}
	case reflect.Interface:
		out = append(out, zero)
		for _, x := range []any{1.5, "s", []any{1.0}, map[string]any{"k": true}, true} {
			x := x
			out = append(out, mk(t, func(v reflect.Value) { v.Set(reflect.ValueOf(x)) }))
		}
	case reflect.Pointer:
		out = append(out, zero)
		for _, e := range thinValues(values(t.Elem(), limit, depth+1), 4) {
			p := reflect.New(t.Elem())
			p.Elem().Set(e)
			if p.Type() != t { // named pointer type
				p = p.Convert(t)
			}
			out = append(out, p)
		}
	case reflect.Slice:
		es := thinValues(values(t.Elem(), limit, depth+1), 4)
		out = append(out, zero, reflect.MakeSlice(t, 0, 0))
		if len(es) > 0 {
			s1 := reflect.MakeSlice(t, 1, 1)
			s1.Index(0).Set(es[len(es)-1])
			out = append(out, s1)
			s2 := reflect.MakeSlice(t, 2, 2)
			s2.Index(0).Set(es[0])
			s2.Index(1).Set(es[len(es)/2])
			out = append(out, s2)
			s3 := reflect.MakeSlice(t, 5, 5)
			for i := 0; i < 5; i++ {
				s3.Index(i).Set(es[i%len(es)])
			}
			out = append(out, s3)
		}
	case reflect.Array:
		es := thinValues(values(t.Elem(), limit, depth+1), 3)
		out = append(out, zero)
		if t.Len() > 0 {
			for k := range es {
				a := reflect.New(t).Elem()
				for i := 0; i < t.Len(); i++ {
					a.Index(i).Set(es[(k+i)%len(es)])
				}
				out = append(out, a)
			}
		}
	case reflect.Map:
		es := thinValues(values(t.Elem(), limit, depth+1), 4)
		out = append(out, reflect.MakeMap(t))
		if t.Key().Kind() == reflect.String && len(es) > 0 {
			key := func(s string) reflect.Value { return mk(t.Key(), func(v reflect.Value) { v.SetString(s) }) }
			m1 := reflect.MakeMap(t)
			m1.SetMapIndex(key("a"), es[len(es)-1])
			out = append(out, m1)
			m2 := reflect.MakeMap(t)
			m2.SetMapIndex(key("a"), es[0])
			m2.SetMapIndex(key("é b"), es[len(es)/2])
			out = append(out, m2)
		}
	case reflect.Struct:
		n := t.NumField()
		per := make([][]reflect.Value, n)
		for i := 0; i < n; i++ {
			f := t.Field(i)
			if !f.IsExported() {
				per[i] = []reflect.Value{reflect.Value{}}
				continue
			}
			vs := thinValues(values(f.Type, limit, depth+1), 5)
			if f.Anonymous && f.Type.Kind() == reflect.Pointer {
				// nil embedded pointers are outside the domain
				var nn []reflect.Value
				for _, v := range vs {
					if !v.IsNil() {
						nn = append(nn, v)
					}
				}
				vs = nn
			}
			per[i] = vs
		}
		build := func(idx []int) reflect.Value {
			s := reflect.New(t).Elem()
			for i := 0; i < n; i++ {
				if per[i][idx[i]].IsValid() {
					s.Field(i).Set(per[i][idx[i]])
				}
			}
			return s
		}
		total := 1
		for i := 0; i < n; i++ {
			if len(per[i]) == 0 {
				return nil
			}
			total *= len(per[i])
			if total > 4096 {
				break
			}
		}
		if total <= limit || total <= 64 {
			idx := make([]int, n)
			for {
				out = append(out, build(idx))
				i := n - 1
				for ; i >= 0; i-- {
					idx[i]++
					if idx[i] < len(per[i]) {
						break
					}
					idx[i] = 0
				}
				if i < 0 {
					break
				}
			}
		} else {
			// every single-field deviation from the first and from the last choice, plus all pairs
			base0 := make([]int, n)
			baseL := make([]int, n)
			for i := range baseL {
				baseL[i] = len(per[i]) - 1
			}
			seen := map[string]bool{}
			emit := func(idx []int) {
				k := fmt.Sprint(idx)
				if !seen[k] {
					seen[k] = true
					out = append(out, build(idx))
				}
			}
			for _, base := range [][]int{base0, baseL} {
				emit(base)
				for i := 0; i < n; i++ {
					for a := 0; a < len(per[i]); a++ {
						idx := append([]int(nil), base...)
						idx[i] = a
						emit(idx)
						for j := i + 1; j < n && n <= 4; j++ {
							for b := 0; b < len(per[j]); b++ {
								idx2 := append([]int(nil), idx...)
								idx2[j] = b
								emit(idx2)
							}
						}
					}
				}
			}
		}
	default:
		// func, chan, complex, unsafe.Pointer: only the zero value (never marshalled)
		out = append(out, zero)
	}
	return out
}

// FullyPopulated returns a value of t in which nothing is empty or nil, so that
// encoding/json emits every field (even omitempty ones).
func FullyPopulated(t reflect.Type) reflect.Value {
	switch t {
	case timeType:
		return reflect.ValueOf(time.Date(2020, 2, 29, 23, 59, 59, 0, time.UTC))
	case levelType:
		return reflect.ValueOf(slog.LevelError)
	case bigIntT:
		return reflect.ValueOf(*big.NewInt(7))
	case bigRatT:
		return reflect.ValueOf(*big.NewRat(1, 3))
	case bigFloatT:
		return reflect.ValueOf(*big.NewFloat(1.5))
	}
	v := reflect.New(t).Elem()
	switch t.Kind() {
	case reflect.Bool:
		v.SetBool(true)
	case reflect.Int, reflect.Int8, reflect.Int16, reflect.Int32, reflect.Int64:
		v.SetInt(1)
	case reflect.Uint, reflect.Uint8, reflect.Uint16, reflect.Uint32, reflect.Uint64, reflect.Uintptr:
		v.SetUint(1)
	case reflect.Float32, reflect.Float64:
		v.SetFloat(1.5)
	case reflect.String:
		v.SetString("s")
	case reflect.Interface:
		v.Set(reflect.ValueOf("i"))
	case reflect.Pointer:
		p := reflect.New(t.Elem())
		p.Elem().Set(FullyPopulated(t.Elem()))
		v.Set(p.Convert(t))
	case reflect.Slice:
		s := reflect.MakeSlice(t, 1, 1)
		s.Index(0).Set(FullyPopulated(t.Elem()))
		v.Set(s)
	case reflect.Array:
		for i := 0; i < t.Len(); i++ {
			v.Index(i).Set(FullyPopulated(t.Elem()))
		}
	case reflect.Map:
		m := reflect.MakeMap(t)
		if t.Key().Kind() == reflect.String {
			m.SetMapIndex(mk(t.Key(), func(k reflect.Value) { k.SetString("k") }), FullyPopulated(t.Elem()))
		}
		v.Set(m)
	case reflect.Struct:
		for i := 0; i < t.NumField(); i++ {
			if t.Field(i).IsExported() {
				v.Field(i).Set(FullyPopulated(t.Field(i).Type))
			}
		}
	}
	return v
}

// TypeDesc renders a short stable description (struct tags included).
func TypeDesc(t reflect.Type) string {
	s := t.String()
	return strings.ReplaceAll(s, "interface {}", "any")
}

// jsonNameOf is the JSON key encoding/json would use for the field in
// isolation ("" if omitted).
func jsonNameOf(f reflect.StructField) string {
	tag, ok := f.Tag.Lookup("json")
	if !ok {
		return f.Name
	}
	if tag == "-" {
		return ""
	}
	name, _, _ := strings.Cut(tag, ",")
	if name == "" || strings.ContainsAny(name, "'\"\\") {
		return f.Name
	}
	return name
}
