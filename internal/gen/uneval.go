package gen

import "strings"

// G-uneval: combinator trees over evaluating leaves next to unevaluated*.

// PropLeaves are property-evaluating leaves: each can record evaluations and
// then fail, succeed without evaluating, evaluate everything, or evaluate
// depending on the value.
var PropLeaves = []string{
	`{"properties":{"a":true}}`,
	`{"properties":{"b":true}}`,
	`{"properties":{"a":{"type":"integer"}}}`,
	`{"properties":{"a":true},"required":["b"]}`,
	`{"patternProperties":{"^b":true}}`,
	`{"additionalProperties":true}`,
	`{"unevaluatedProperties":true}`,
	`{"required":["a"]}`,
	`true`,
	`false`,
	`{"properties":{"a":true},"maxProperties":1}`,
	`{"properties":{"a":true},"unevaluatedProperties":{"type":"integer"}}`,
	`{"properties":{"a":{"properties":{"b":true}}}}`,
	`{"properties":{"b":true},"propertyNames":{"enum":["a","b"]}}`,
	`{"additionalProperties":{"type":"integer"}}`,
	`{"properties":{"a":true},"dependentRequired":{"a":["c"]}}`,
}

// ItemLeaves are the array analogue.
var ItemLeaves = []string{
	`{"prefixItems":[true]}`,
	`{"prefixItems":[true,true]}`,
	`{"prefixItems":[{"type":"integer"}]}`,
	`{"prefixItems":[true],"minItems":2}`,
	`{"contains":{"type":"string"}}`,
	`{"contains":{"type":"integer"}}`,
	`{"items":true}`,
	`{"unevaluatedItems":true}`,
	`{"minItems":1}`,
	`true`,
	`false`,
	`{"prefixItems":[true],"contains":{"type":"string"}}`,
	`{"prefixItems":[true],"items":{"type":"integer"}}`,
	`{"contains":{"type":"string"},"maxContains":1}`,
	`{"prefixItems":[true],"unevaluatedItems":{"type":"integer"}}`,
	`{"contains":{"type":"integer"},"minContains":0}`,
}

func stripBraces(obj string) string { return obj[1 : len(obj)-1] }

// merge joins the keywords of schema objects into one object (callers make sure names do not clash).
func mergeObjs(objs ...string) string {
	var parts []string
	for _, o := range objs {
		if o == "" || o == "{}" {
			continue
		}
		parts = append(parts, stripBraces(o))
	}
	return "{" + strings.Join(parts, ",") + "}"
}

// combine1 returns every depth-1 combinator over the given operands.
// big are used in binary positions, small in the ternary if/then/else.
func combine(big, small []string) []string {
	var out []string
	for _, k := range []string{"allOf", "anyOf", "oneOf"} {
		for _, x := range big {
			out = append(out, `{"`+k+`":[`+x+`]}`)
			for _, y := range big {
				out = append(out, `{"`+k+`":[`+x+`,`+y+`]}`)
			}
		}
	}
	for _, x := range big {
		out = append(out, `{"not":`+x+`}`)
		out = append(out, `{"if":`+x+`}`)
		out = append(out, `{"dependentSchemas":{"a":`+x+`}}`)
		out = append(out, `{"$defs":{"d":`+x+`},"$ref":"#/$defs/d"}`)
		if strings.HasPrefix(x, "{") && !strings.Contains(x, `"$dynamicAnchor"`) && !strings.Contains(x, `"$defs"`) {
			out = append(out, `{"$defs":{"d":{"$dynamicAnchor":"n",`+stripBraces(x)+`}},"$dynamicRef":"#n"}`)
		}
		for _, y := range big {
			out = append(out, `{"if":`+x+`,"then":`+y+`}`)
			out = append(out, `{"if":`+x+`,"else":`+y+`}`)
		}
	}
	for _, x := range small {
		for _, y := range small {
			for _, z := range small {
				out = append(out, `{"if":`+x+`,"then":`+y+`,"else":`+z+`}`)
			}
		}
	}
	return out
}

// hasClash reports whether two schema objects share a top-level keyword.
func hasClash(a, b string) bool {
	for _, k := range []string{"allOf", "anyOf", "oneOf", "not", "if", "then", "else", "dependentSchemas", "$defs", "$ref", "$dynamicRef",
		"properties", "patternProperties", "additionalProperties", "unevaluatedProperties", "required", "maxProperties", "propertyNames", "dependentRequired",
		"prefixItems", "items", "contains", "unevaluatedItems", "minItems", "maxContains", "minContains"} {
		q := `"` + k + `":`
		if topLevelHas(a, q) && topLevelHas(b, q) {
			return true
		}
	}
	return false
}

// topLevelHas looks for a key at nesting depth 1 of an object text.
func topLevelHas(obj, q string) bool {
	depth := 0
	inStr := false
	for i := 0; i < len(obj); i++ {
		c := obj[i]
		if inStr {
			if c == '\\' {
				i++
			} else if c == '"' {
				inStr = false
			}
			continue
		}
		switch c {
		case '"':
			if depth == 1 && strings.HasPrefix(obj[i:], q) {
				return true
			}
			inStr = true
		case '{', '[':
			depth++
		case '}', ']':
			depth--
		}
	}
	return false
}

// Uneval builds the G-uneval schema set for objects (props=true) or arrays.
func Uneval(props bool, thorough bool) *Set {
	s := NewSet()
	leaves := ItemLeaves
	kw := "unevaluatedItems"
	if props {
		leaves = PropLeaves
		kw = "unevaluatedProperties"
	}
	variants := []string{`false`, `{"type":"integer"}`, `true`}
	adj := append([]string{""}, leaves[0], leaves[2], leaves[4], leaves[5])
	nBig, nSmall := 10, 4
	if thorough {
		nBig, nSmall = len(leaves), 6
	}
	d1 := combine(leaves[:nBig], leaves[:nSmall])
	root := func(pool, tree, a, v string) {
		if a != "" && hasClash(tree, a) {
			return
		}
		s.Add(pool, mergeObjs(tree, a, `{"`+kw+`":`+v+`}`))
	}
	for _, l := range leaves {
		if strings.HasPrefix(l, "{") && !topLevelHas(l, `"`+kw+`":`) {
			for _, v := range variants {
				root("U0", l, "", v)
			}
		}
	}
	for _, t := range d1 {
		for _, a := range adj {
			for _, v := range variants {
				root("U1", t, a, v)
			}
		}
	}
	// depth 2: combinators over depth-1 trees from a small leaf pool
	inner := combine(leaves[:5], leaves[:3])
	if !thorough {
		inner = combine(leaves[:4], leaves[:2])
	}
	side := []string{leaves[0], leaves[1], leaves[3], leaves[8]}
	for _, t := range inner {
		var ws []string
		for _, k := range []string{"allOf", "anyOf", "oneOf"} {
			ws = append(ws, `{"`+k+`":[`+t+`]}`)
			for _, y := range side {
				ws = append(ws, `{"`+k+`":[`+t+`,`+y+`]}`, `{"`+k+`":[`+y+`,`+t+`]}`)
			}
		}
		ws = append(ws, `{"not":`+t+`}`, `{"if":`+t+`,"then":`+side[1]+`}`, `{"if":`+side[0]+`,"then":`+t+`}`, `{"if":`+side[2]+`,"else":`+t+`}`,
			`{"dependentSchemas":{"a":`+t+`}}`)
		if !strings.Contains(t, `"$defs"`) {
			ws = append(ws, `{"$defs":{"d":`+t+`},"$ref":"#/$defs/d"}`)
		}
		for _, w := range ws {
			for _, v := range variants[:2] {
				root("U2", w, "", v)
			}
			root("U2", w, adj[1], `false`)
		}
	}
	if thorough {
		// depth 3: unary wrappers over depth-2
		for _, t := range inner {
			for _, w1 := range []string{`{"allOf":[` + t + `]}`, `{"anyOf":[` + t + `,` + side[1] + `]}`, `{"oneOf":[` + t + `,false]}`, `{"if":true,"then":` + t + `}`} {
				for _, w2 := range []string{`{"allOf":[` + w1 + `]}`, `{"anyOf":[false,` + w1 + `]}`, `{"not":{"not":` + w1 + `}}`, `{"dependentSchemas":{"b":` + w1 + `}}`, `{"if":false,"else":` + w1 + `}`} {
					root("U3", w2, "", `false`)
				}
			}
		}
	}
	// unevaluated* placed inside a subschema (cousins must not see each other)
	for _, x := range leaves[:8] {
		for _, y := range leaves[:8] {
			if !strings.HasPrefix(x, "{") || topLevelHas(x, `"`+kw+`":`) {
				continue
			}
			s.Add("Ucousin", `{"allOf":[`+mergeObjs(x, `{"`+kw+`":false}`)+`,`+y+`]}`)
			s.Add("Ucousin", `{"allOf":[`+y+`,`+mergeObjs(x, `{"`+kw+`":false}`)+`]}`)
			s.Add("Ucousin", `{"anyOf":[`+mergeObjs(x, `{"`+kw+`":false}`)+`,`+y+`],"`+kw+`":{"type":"integer"}}`)
		}
	}
	// evaluations at child locations, or reached through the reference forms, with hand-written shapes
	// one $defs entry applied several times to the same instance location (a per-call memo of
	// successful applications must not lose what the later applications evaluated)
	for _, ref := range []string{`{"$ref":"#/$defs/base"}`, `{"$dynamicRef":"#b"}`} {
		base, more, kwd := `{"$dynamicAnchor":"b","properties":{"a":{"type":"integer"}}}`, `"properties":{"b":true}`, kw
		if !props {
			base, more = `{"$dynamicAnchor":"b","prefixItems":[{"type":"integer"}]}`, `"prefixItems":[true,true]`
		}
		r := ref[1 : len(ref)-1]
		for _, x := range []string{
			`{"$defs":{"base":` + base + `},"allOf":[` + ref + `,{` + r + `,"` + kwd + `":false}]}`,
			`{"$defs":{"base":` + base + `},"allOf":[{` + r + `,"` + kwd + `":false},` + ref + `]}`,
			`{"$defs":{"base":` + base + `},"anyOf":[{` + r + `,"required":["zz"],"minItems":9},{` + r + `,"` + kwd + `":false}]}`,
			`{"$defs":{"base":` + base + `},"anyOf":[{` + r + `,` + more + `,"required":["b"],"minItems":2,"` + kwd + `":false},{` + r + `,"` + kwd + `":false}]}`,
			`{"$defs":{"base":` + base + `},"oneOf":[{` + r + `,"required":["b"],"minItems":2},{` + r + `,"` + kwd + `":false}]}`,
			`{"$defs":{"base":` + base + `},` + r + `,"allOf":[` + ref + `],"` + kwd + `":false}`,
			`{"$defs":{"base":` + base + `},"if":` + ref + `,"then":{` + r + `,"` + kwd + `":false},"else":false}`,
			`{"$defs":{"base":` + base + `},"not":{"not":` + ref + `},"allOf":[{` + r + `,"` + kwd + `":{"type":"string"}}]}`,
			`{"$defs":{"base":` + base + `},"properties":{"a":` + ref + `},"items":` + ref + `,` + r + `,"` + kwd + `":false}`,
		} {
			s.Add("Ushared", x)
		}
	}
	if props {
		for _, x := range []string{
			`{"patternProperties":{"^a":{"properties":{"b":true}}},"unevaluatedProperties":false}`,
			`{"properties":{"a":{"properties":{"b":true},"unevaluatedProperties":false}},"unevaluatedProperties":false}`,
			`{"properties":{"a":{"properties":{"b":true,"c":true}}},"unevaluatedProperties":{"type":"integer"}}`,
			`{"propertyNames":{"properties":{"b":true}},"unevaluatedProperties":false}`,
			`{"dependentSchemas":{"a":{"properties":{"a":{"properties":{"b":true}}}}},"unevaluatedProperties":false}`,
			`{"additionalProperties":{"properties":{"b":true}},"properties":{"b":false},"unevaluatedProperties":false}`,
			`{"anyOf":[{"properties":{"a":{"properties":{"b":true}}}},{"patternProperties":{"^c":true}}],"unevaluatedProperties":false}`,
			`{"$defs":{"d":{"$anchor":"n","properties":{"a":true}}},"$dynamicRef":"#n","unevaluatedProperties":false}`,
			`{"$defs":{"d":{"$anchor":"n","properties":{"a":true}}},"allOf":[{"$dynamicRef":"#n"}],"unevaluatedProperties":{"type":"integer"}}`,
			`{"$id":"http://h/r.json","$ref":"s.json","$defs":{"o":{"$dynamicAnchor":"n","properties":{"b":true}},"s":{"$id":"s.json","$dynamicRef":"#n","$defs":{"i":{"$dynamicAnchor":"n","properties":{"a":true}}}}},"unevaluatedProperties":false}`,
			`{"$id":"http://h/r.json","$ref":"s.json","$defs":{"s":{"$id":"s.json","$dynamicRef":"#n","$defs":{"i":{"$dynamicAnchor":"n","properties":{"a":true}}}}},"unevaluatedProperties":false}`,
			`{"$defs":{"d":{"properties":{"a":true},"unevaluatedProperties":false}},"$ref":"#/$defs/d","properties":{"b":true}}`,
			`{"$defs":{"d":{"properties":{"a":true}}},"properties":{"a":{"$ref":"#/$defs/d"}},"unevaluatedProperties":false}`,
			`{"if":{"properties":{"a":{"properties":{"b":{"const":1}}}},"required":["a"]},"then":{"properties":{"b":true}},"unevaluatedProperties":false}`,
			`{"$id":"http://h/r.json","$dynamicRef":"ext.json#n","unevaluatedProperties":false,"$defs":{"e":{"$id":"ext.json","$defs":{"x":{"$dynamicAnchor":"n","properties":{"a":true}}}}}}`,
			`{"$id":"http://h/r.json","anyOf":[{"$dynamicRef":"ext.json#n"}],"unevaluatedProperties":{"type":"integer"},"$defs":{"e":{"$id":"ext.json","$defs":{"x":{"$dynamicAnchor":"n","properties":{"a":true,"b":true}}}}}}`,
			`{"not":{"not":{"properties":{"a":true}}},"unevaluatedProperties":false}`,
			`{"oneOf":[{"properties":{"a":true},"required":["a"]},{"properties":{"b":true},"required":["b"]}],"unevaluatedProperties":false}`,
		} {
			s.Add("Uchild", x)
		}
	} else {
		for _, x := range []string{
			// a $dynamicRef whose anchor no resource of the dynamic scope declares falls back to its lexical target - and still annotates
			`{"$id":"http://h/r.json","$dynamicRef":"ext.json#n","unevaluatedItems":false,"$defs":{"e":{"$id":"ext.json","$defs":{"x":{"$dynamicAnchor":"n","prefixItems":[true]}}}}}`,
			`{"$id":"http://h/r.json","allOf":[{"$dynamicRef":"ext.json#n"}],"unevaluatedItems":{"type":"integer"},"$defs":{"e":{"$id":"ext.json","$defs":{"x":{"$dynamicAnchor":"n","prefixItems":[true,true]}}}}}`,
			// contains with a trivial subschema still evaluates (annotates) the items it matches
			`{"contains":true,"unevaluatedItems":false}`, `{"contains":{},"unevaluatedItems":false}`, `{"allOf":[{"contains":true}],"unevaluatedItems":false}`, `{"$ref":"#/$defs/c","$defs":{"c":{"contains":{}}},"unevaluatedItems":false}`,
			`{"contains":true,"minContains":2,"unevaluatedItems":false}`, `{"anyOf":[{"contains":true,"minContains":3},{"prefixItems":[true]}],"unevaluatedItems":{"type":"integer"}}`, `{"contains":false,"minContains":0,"unevaluatedItems":false}`,
			`{"contains":true,"maxContains":1,"unevaluatedItems":false}`, `{"if":{"contains":true},"then":{"maxItems":2},"unevaluatedItems":{"type":"string"}}`, `{"not":{"contains":true},"unevaluatedItems":false}`,
			`{"contains":{"type":"array","items":true},"unevaluatedItems":false}`,
			`{"contains":{"type":"array","prefixItems":[true,true]},"unevaluatedItems":{"type":"integer"}}`,
			`{"prefixItems":[{"prefixItems":[true,true]}],"unevaluatedItems":false}`,
			`{"items":{"prefixItems":[true]},"unevaluatedItems":false}`,
			`{"contains":{"contains":{"const":1}},"unevaluatedItems":false}`,
			`{"allOf":[{"contains":{"type":"integer"}},{"contains":{"type":"string"}}],"unevaluatedItems":false}`,
			`{"anyOf":[{"contains":{"const":1}},{"contains":{"const":"x"}}],"allOf":[{"contains":{"type":"string"},"minContains":0}],"unevaluatedItems":false}`,
			`{"contains":{"const":1},"minContains":1,"unevaluatedItems":{"type":"string"}}`,
			`{"allOf":[{"contains":{"const":"x"},"minContains":2},{"prefixItems":[true]}],"unevaluatedItems":{"type":"integer"}}`,
			`{"prefixItems":[true],"contains":{"const":"x"},"unevaluatedItems":false}`,
			`{"prefixItems":[{"unevaluatedItems":false}],"unevaluatedItems":false}`,
			`{"anyOf":[{"prefixItems":[{"items":true}]},{"contains":{"const":"x"}}],"unevaluatedItems":false}`,
			`{"$defs":{"d":{"$anchor":"n","prefixItems":[true]}},"$dynamicRef":"#n","unevaluatedItems":false}`,
			`{"$id":"http://h/r.json","$ref":"s.json","$defs":{"o":{"$dynamicAnchor":"n","prefixItems":[true,true]},"s":{"$id":"s.json","$dynamicRef":"#n","$defs":{"i":{"$dynamicAnchor":"n","prefixItems":[true]}}}},"unevaluatedItems":false}`,
			`{"$defs":{"d":{"prefixItems":[true],"unevaluatedItems":false}},"$ref":"#/$defs/d","contains":{"const":"x"}}`,
			`{"if":{"prefixItems":[{"const":1}]},"then":{"prefixItems":[true,true]},"unevaluatedItems":false}`,
			`{"not":{"not":{"prefixItems":[true]}},"unevaluatedItems":false}`,
			`{"oneOf":[{"prefixItems":[{"const":1}]},{"prefixItems":[true,{"const":1}]}],"unevaluatedItems":false}`,
		} {
			s.Add("Uchild", x)
		}
	}
	return s
}

// UnevalObjects is every object over keys {a,b,c} with values {1,"x"} (27).
func UnevalObjects() []string {
	var out []string
	vals := []string{"", "1", `"x"`}
	for _, a := range vals {
		for _, b := range vals {
			for _, c := range vals {
				var parts []string
				if a != "" {
					parts = append(parts, `"a":`+a)
				}
				if b != "" {
					parts = append(parts, `"b":`+b)
				}
				if c != "" {
					parts = append(parts, `"c":`+c)
				}
				out = append(out, "{"+strings.Join(parts, ",")+"}")
			}
		}
	}
	out = append(out, `{"a":{"b":1}}`, `{"a":{"b":1,"c":1},"b":1}`, `{"a":{}}`, `{"a":{"b":1},"b":1}`, `{"a":[1],"b":1}`, `{"a":{"a":{"b":1}},"b":"x"}`)
	return out
}

// UnevalArrays is every array of length <= 3 over {1,"x"} (15).
func UnevalArrays() []string {
	out := []string{"[]"}
	vals := []string{"1", `"x"`}
	for _, a := range vals {
		out = append(out, "["+a+"]")
		for _, b := range vals {
			out = append(out, "["+a+","+b+"]")
			for _, c := range vals {
				out = append(out, "["+a+","+b+","+c+"]")
			}
		}
	}
	out = append(out, `[1,"x",1,"x"]`, `[[1]]`, `[[1],1]`, `[[1,"x"],"x"]`, `[1,[1]]`, `[[1,"x"],[1],1]`)
	// long arrays (beyond one machine word of item indexes): integers first / strings first / mixed tail
	long := func(n int, f func(i int) string) string {
		parts := make([]string, n)
		for i := range parts {
			parts[i] = f(i)
		}
		return "[" + strings.Join(parts, ",") + "]"
	}
	pick := func(b bool) string {
		if b {
			return "1"
		}
		return `"x"`
	}
	out = append(out,
		long(65, func(i int) string { return pick(i == 0) }), long(65, func(i int) string { return pick(i != 64) }),
		long(130, func(i int) string { return pick(i < 70) }), long(130, func(i int) string { return pick(i >= 64 && i%2 == 0) }),
		long(200, func(i int) string { return pick(i == 0 || i == 199) }))
	return out
}
