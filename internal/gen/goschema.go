package gen

import (
	"encoding/json"
	"fmt"
	"reflect"

	"github.com/google/jsonschema-go/jsonschema"
)

// G-goschema: Schema Go values. The tables below are written from the two
// specifications, not derived from the struct by reflection; CheckFieldTable
// compares them with the exported fields so that a stale table is a harness error.

var (
	SchemaFields      = []string{"Not", "If", "Then", "Else", "Items", "AdditionalItems", "Contains", "AdditionalProperties", "PropertyNames", "UnevaluatedItems", "UnevaluatedProperties", "ContentSchema"}
	SchemaSliceFields = []string{"AllOf", "AnyOf", "OneOf", "PrefixItems", "ItemsArray"}
	SchemaMapFields   = []string{"Defs", "Definitions", "Properties", "PatternProperties", "DependentSchemas", "DependencySchemas"}
)

// CheckFieldTable reports a mismatch between the tables and jsonschema.Schema.
func CheckFieldTable() error {
	want := map[string]string{}
	for _, f := range SchemaFields {
		want[f] = "*jsonschema.Schema"
	}
	for _, f := range SchemaSliceFields {
		want[f] = "[]*jsonschema.Schema"
	}
	for _, f := range SchemaMapFields {
		want[f] = "map[string]*jsonschema.Schema"
	}
	t := reflect.TypeOf(jsonschema.Schema{})
	for i := 0; i < t.NumField(); i++ {
		f := t.Field(i)
		ts := f.Type.String()
		if ts == "*jsonschema.Schema" || ts == "[]*jsonschema.Schema" || ts == "map[string]*jsonschema.Schema" {
			if want[f.Name] != ts {
				return fmt.Errorf("field %s %s is not in the independent table", f.Name, ts)
			}
			delete(want, f.Name)
		}
	}
	if len(want) > 0 {
		return fmt.Errorf("table lists fields that do not exist: %v", want)
	}
	return nil
}

// SubSpec says how one subschema-bearing field is populated.
type SubSpec struct {
	Field string
	Pop   int // 0 nil, 1 empty (slices, maps), 2 one child, 3 two children, 4 empty with spare capacity (slices)
}

// Tree describes a schema tree: a root with populated fields, each child either
// a leaf or another Tree.
type Tree struct {
	Specs    []SubSpec
	Children map[string][]*Tree // per field: children (nil entry = leaf)
	Leaf     int
}

var leafN int

func leaf(i int) *jsonschema.Schema {
	switch i % 4 {
	case 0:
		return &jsonschema.Schema{Type: "integer"}
	case 1:
		return &jsonschema.Schema{}
	case 2:
		return &jsonschema.Schema{Not: &jsonschema.Schema{}}
	}
	mx := float64(i)
	return &jsonschema.Schema{Required: []string{"r"}, Enum: []any{1.0}, Title: fmt.Sprintf("leaf%d", i), Maximum: &mx, Default: json.RawMessage(`null`), Examples: []any{}, Types: []string{"integer"}, Extra: map[string]any{"leaf": true}}
}

// Build constructs the Schema for a tree. kids(field, idx) supplies the subtree
// for a child position, or nil for a leaf.
func Build(specs []SubSpec, kids func(field string, idx int) *jsonschema.Schema) *jsonschema.Schema {
	// every kind of non-schema field is populated, so that "marshals identically" has something to lose
	var c any = map[string]any{"k": []any{1.0, nil}}
	f, i := 1.5, 2
	s := &jsonschema.Schema{Title: "node", Required: []string{"x"}, Extra: map[string]any{"x-extra": 1.0, "x-obj": map[string]any{"a": []any{"b"}}},
		Types: []string{"object", "null", "array"}, Const: &c, Default: json.RawMessage(`{"d":[1]}`), Examples: []any{1.0, "e", nil}, Enum: []any{map[string]any{"k": []any{1.0, nil}}, nil},
		Minimum: &f, ExclusiveMaximum: &f, MultipleOf: &f, MaxLength: &i, MinItems: &i, MaxContains: &i, MinProperties: &i, UniqueItems: true, Deprecated: true, ReadOnly: true,
		DependentRequired: map[string][]string{"p": {"q"}}, DependencyStrings: map[string][]string{"s": {"t", "u"}},
		Comment: "c", Description: "d", Format: "f", Pattern: "^p", ContentEncoding: "base64", ContentMediaType: "m", PropertyOrder: []string{"b", "zz", "a"}}
	v := reflect.ValueOf(s).Elem()
	n := 0
	child := func(field string, idx int) *jsonschema.Schema {
		if kids != nil {
			if k := kids(field, idx); k != nil {
				return k
			}
		}
		n++
		return leaf(n)
	}
	for _, sp := range specs {
		f := v.FieldByName(sp.Field)
		switch f.Kind() {
		case reflect.Pointer:
			if sp.Pop >= 2 {
				f.Set(reflect.ValueOf(child(sp.Field, 0)))
			}
		case reflect.Slice:
			switch sp.Pop {
			case 1:
				f.Set(reflect.ValueOf([]*jsonschema.Schema{}))
			case 4:
				f.Set(reflect.ValueOf(make([]*jsonschema.Schema, 0, 4)))
			case 2:
				f.Set(reflect.ValueOf([]*jsonschema.Schema{child(sp.Field, 0)}))
			case 3:
				sl := make([]*jsonschema.Schema, 0, 4)
				sl = append(sl, child(sp.Field, 0), child(sp.Field, 1))
				f.Set(reflect.ValueOf(sl))
			}
		case reflect.Map:
			switch sp.Pop {
			case 1, 4:
				f.Set(reflect.ValueOf(map[string]*jsonschema.Schema{}))
			case 2:
				f.Set(reflect.ValueOf(map[string]*jsonschema.Schema{"a": child(sp.Field, 0)}))
			case 3:
				f.Set(reflect.ValueOf(map[string]*jsonschema.Schema{"a": child(sp.Field, 0), "b": child(sp.Field, 1)}))
			}
		}
	}
	return s
}

func allSubFields() []string {
	var fs []string
	fs = append(fs, SchemaFields...)
	fs = append(fs, SchemaSliceFields...)
	fs = append(fs, SchemaMapFields...)
	return fs
}

func exclusive(a, b string) bool {
	p := func(x, y string) bool { return (a == x && b == y) || (a == y && b == x) }
	return p("Items", "ItemsArray") || p("Defs", "Definitions")
}

// Trees enumerates builders of schema trees: every field in every population,
// nested to depth 2 under every field (depth 3 on a stride), and every pair of fields.
func Trees(thorough bool) []func() (*jsonschema.Schema, string) {
	var out []func() (*jsonschema.Schema, string)
	fields := allSubFields()
	pops := []int{0, 1, 2, 3, 4}
	for _, f := range fields {
		for _, p := range pops {
			f, p := f, p
			out = append(out, func() (*jsonschema.Schema, string) {
				return Build([]SubSpec{{f, p}}, nil), fmt.Sprintf("%s:pop%d", f, p)
			})
			if p < 2 {
				continue
			}
			for _, g := range fields {
				qs := []int{3}
				if thorough {
					qs = []int{1, 2, 3}
				}
				for _, q := range qs {
					g, q := g, q
					out = append(out, func() (*jsonschema.Schema, string) {
						return Build([]SubSpec{{f, p}}, func(field string, idx int) *jsonschema.Schema {
							if idx == 0 {
								return Build([]SubSpec{{g, q}}, nil)
							}
							return nil
						}), fmt.Sprintf("%s:pop%d/%s:pop%d", f, p, g, q)
					})
				}
			}
		}
	}
	for i, f := range fields {
		for _, g := range fields[i+1:] {
			if exclusive(f, g) {
				continue
			}
			for _, p := range []int{1, 2, 3} {
				f, g, p := f, g, p
				out = append(out, func() (*jsonschema.Schema, string) {
					return Build([]SubSpec{{f, p}, {g, 5 - p}}, nil), fmt.Sprintf("%s:pop%d+%s:pop%d", f, p, g, 5-p)
				})
			}
		}
	}
	// depth 3
	step := 29
	if thorough {
		step = 2
	}
	k := 0
	for _, f := range fields {
		for _, g := range fields {
			for _, h := range fields {
				k++
				if k%step != 0 {
					continue
				}
				f, g, h := f, g, h
				out = append(out, func() (*jsonschema.Schema, string) {
					return Build([]SubSpec{{f, 3}}, func(_ string, idx int) *jsonschema.Schema {
						if idx > 0 {
							return nil
						}
						return Build([]SubSpec{{g, 2}}, func(_ string, _ int) *jsonschema.Schema {
							return Build([]SubSpec{{h, 3}}, nil)
						})
					}), fmt.Sprintf("%s:pop3/%s:pop2/%s:pop3", f, g, h)
				})
			}
		}
	}
	// two siblings that both have children, the first one several (a level-by-level copy must
	// not lose the second), under every pair of container fields
	wf, wg, wh := []string{"AllOf", "Properties", "ItemsArray", "DependentSchemas"}, []string{"AnyOf", "Properties"}, []string{"Not", "AllOf", "Properties"}
	if thorough {
		wf, wg, wh = []string{"AllOf", "AnyOf", "PrefixItems", "ItemsArray", "Properties", "Defs", "DependentSchemas", "PatternProperties"}, []string{"AnyOf", "Properties", "OneOf", "Definitions"}, []string{"Not", "Items", "AllOf", "Properties", "Then"}
	}
	for _, f := range wf {
		for _, g := range wg {
			for _, h := range wh {
				f, g, h := f, g, h
				out = append(out, func() (*jsonschema.Schema, string) {
					return Build([]SubSpec{{f, 3}}, func(_ string, idx int) *jsonschema.Schema {
						if idx == 0 {
							return Build([]SubSpec{{g, 3}}, func(_ string, _ int) *jsonschema.Schema { return Build([]SubSpec{{"Contains", 2}}, nil) })
						}
						return Build([]SubSpec{{h, 2}}, func(_ string, _ int) *jsonschema.Schema { return Build([]SubSpec{{"If", 2}, {"Else", 2}}, nil) })
					}), fmt.Sprintf("wide %s:[%s:pop3/Contains, %s:pop2/If+Else]", f, g, h)
				})
			}
		}
	}
	// large trees: 4 children per node (two in a slice, two in a map) down to depth 3 (85 nodes + leaves),
	// and a chain of 100 single children
	var full func(d int) *jsonschema.Schema
	full = func(d int) *jsonschema.Schema {
		if d == 0 {
			return nil
		}
		return Build([]SubSpec{{"AllOf", 3}, {"Properties", 3}}, func(_ string, _ int) *jsonschema.Schema { return full(d - 1) })
	}
	out = append(out, func() (*jsonschema.Schema, string) { return full(3), "large: AllOf:pop3+Properties:pop3 to depth 3" })
	out = append(out, func() (*jsonschema.Schema, string) {
		var chain func(d int) *jsonschema.Schema
		chain = func(d int) *jsonschema.Schema {
			if d == 0 {
				return nil
			}
			f := []string{"Not", "Items", "If", "Contains", "AdditionalProperties"}[d%5]
			return Build([]SubSpec{{f, 2}}, func(_ string, _ int) *jsonschema.Schema { return chain(d - 1) })
		}
		return chain(70), "large: chain of 70 single children"
	})
	return out
}
