package gen

import (
	"fmt"
	"log/slog"
	"math/big"
	"reflect"
	"time"
	"unsafe"
)

// The declared catalogue: what reflect cannot build at run time (named types,
// embedding, promotion and shadowing, recursion, unsupported kinds at depth,
// the standard-library marshaler types).

type (
	// embedding by value / by pointer
	Inner struct {
		X int    `json:"x"`
		Y string `json:"y,omitempty"`
	}
	EmbVal struct {
		Inner
		Z bool
	}
	EmbPtr struct {
		*Inner
		Z bool
	}
	// depth 2
	Mid struct {
		Inner
		M int
	}
	Emb2 struct {
		Mid
		Top string `json:"top"`
	}
	Emb2Ptr struct {
		*Mid
		Top string
	}
	// shadowing: outer field wins over the promoted one, in both declaration orders
	ShadowAfter struct {
		Inner
		X string `json:"x"`
	}
	ShadowBefore struct {
		X string `json:"x"`
		Inner
	}
	// two embedded structs with the same JSON name at the same depth: both dropped by encoding/json
	Inner2 struct {
		X float64 `json:"x"`
		W int
	}
	Collide struct {
		Inner
		Inner2
	}
	// collision resolved by a tag on one side
	InnerTagged struct {
		X int `json:"x"`
	}
	InnerUntagged struct {
		X string
		V int
	}
	CollideTagWins struct {
		InnerTagged
		InnerUntagged2
	}
	InnerUntagged2 struct {
		X2 string `json:"-"`
		X  string
	}
	// a tagged embedded struct is an ordinary field
	EmbTagged struct {
		Inner `json:"inner"`
		Q     int
	}
	EmbTaggedPtr struct {
		*Inner `json:"inner,omitempty"`
		Q      int
	}
	// embedded non-struct types
	EmbNamedInt struct {
		MyInt
		K string
	}
	// same JSON name from tag and from field name at the same level
	SameLevel struct {
		A int `json:"n"`
		B int `json:"n"`
		C int
	}
	SameLevelMixed struct {
		N int
		B int `json:"N"`
	}
	// unexported embedded struct with exported fields (still promoted by encoding/json)
	hidden struct {
		H int `json:"h"`
	}
	EmbHidden struct {
		hidden
		P int
	}
	// a type used several times
	Twice struct {
		A Inner
		B Inner
		C *Inner
		D []Inner
		E map[string]Inner
	}
	// all integer kinds with bounds
	Ints struct {
		I8  int8
		I16 int16
		I32 int32
		I64 int64
		U8  uint8
		U16 uint16
		U32 uint32
		U64 uint64
		UP  uintptr
		I   int
		U   uint
	}
	// pointers and containers
	Ptrs struct {
		P   *int            `json:"p"`
		PP  **int           `json:"pp,omitempty"`
		PS  *[]string       `json:"ps,omitempty"`
		SP  []*int          `json:"sp"`
		MP  map[string]*int `json:"mp"`
		PSt *Inner          `json:"pst"`
		A0  [0]int          `json:"a0"`
		A2  [2]*int         `json:"a2"`
		An  any             `json:"an"`
	}
	Opt struct {
		A int     `json:"a,omitempty"`
		B string  `json:"b,omitzero"`
		C *int    `json:"c,omitempty"`
		D []int   `json:",omitempty"`
		E float32 `json:"e"`
		F MyStr   `json:"-,"`
		G bool    `json:"-"`
	}
	// the listed marshaler types
	Marsh struct {
		T  time.Time
		TP *time.Time
		L  slog.Level
		BI big.Int
		BP *big.Int
		RP *big.Rat
		FP *big.Float
		TS []time.Time
		TM map[string]*big.Int
	}
	MarshVal struct {
		R big.Rat
		F big.Float
	}
	// recursion
	RecSlice []*RecSlice
	// named ARRAY types whose cycle passes through unnamed types only
	RecRing   [2]*RecRing
	RecGrid   [1][]RecGrid
	HoldsRing struct {
		A int
		R RecRing
	}
	RecX     struct{ Y *RecY }
	RecY     struct{ Xs []RecX }
	RecMap   struct{ M map[string]RecMap }
	RecPtr   struct{ Next *RecPtr }
	RecUnexp struct {
		A    int
		next *RecUnexp
	}
	RecEmb struct {
		*RecEmb2
		A int
	}
	RecEmb2 struct{ R *RecEmb }
	// unsupported kinds at depth
	BadFunc struct{ F func() }
	BadChan struct{ C []chan int }
	BadCplx struct{ M map[string]complex128 }
	BadKey  struct{ M map[int]string }
	BadUPtr struct{ P unsafe.Pointer }
	BadDeep struct {
		A []map[string]*struct{ F func(int) }
	}
	BadNamed map[int]string
	BadTwice struct {
		A BadNamed
		B BadNamed
		C int
	}
	NamedFuncs []func()
	BadTwice2  struct {
		A NamedFuncs
		B NamedFuncs
	}
	OnlyBad struct{ F func() }
	// invalid field types that carry tags
	BadTagged struct {
		F  func()         `jsonschema:"a callback"`
		C  chan int       `json:"c" jsonschema:"a channel"`
		M  map[int]string `json:"m,omitempty" jsonschema:"keyed by int"`
		OK int            `json:"ok" jsonschema:"fine"`
	}
	BadTaggedNest struct {
		P *BadTagged
		S []BadTagged
		A struct {
			G []func() `jsonschema:"anonymous"`
		}
	}
	// jsonschema description tags
	Described struct {
		A int `json:"a" jsonschema:"the a"`
	}
	// struct with no JSON-visible fields
	NoFields   struct{ a int }
	EmptyS     struct{}
	HoldsEmpty struct {
		E  EmptyS
		M  map[string]struct{}
		NF NoFields
	}
	// several fields with the same name-less tag text
	SameTag struct {
		Count int    `json:",omitempty"`
		Label string `json:",omitempty"`
		Zed   bool   `json:",omitempty"`
	}
	// deeper embedding with an override candidate in the middle
	Base struct {
		ID int `json:"id"`
	}
	MidOver struct {
		Before int `json:"before"`
		Base
		After string  `json:"after"`
		Opt   float64 `json:"opt,omitempty"`
	}
	TopOver struct {
		MidOver
		Last int `json:"last"`
	}
	// tag forms: several options, unknown options, non-ASCII and punctuated names, other keys before json, empty forms
	TagForms struct {
		A int    `json:"a,omitempty,omitzero"`
		B string `json:"b,foo,omitempty"`
		C int    `json:"é"`
		D int    `json:"a.b"`
		E int    `yaml:"y" json:"e2"`
		F int    `json:""`
		G int    `json:","`
		H *int   `json:"h,omitzero,omitempty"`
		I int    `json:"i,"`
		J []int  `json:"j,omitempty,"`
		K bool   `json:"k,omitzero,unknown"`
		// options are compared literally: a blank makes it another (unknown) option
		L int    `json:"l, omitempty"`
		M *int   `json:"m,omitempty "`
		N string `json:"n, omitzero"`
	}
	// an outer field hides a promoted one by its Go name although the JSON names differ:
	// encoding/json still emits the promoted field
	ShadowGoName struct {
		Inner
		X string `json:"z"`
	}
	ShadowGoNameDash struct {
		Inner
		X int `json:"-"`
	}
	// zero-length arrays are always "empty" for omitempty
	ZeroArr struct {
		A [0]int    `json:"a,omitempty"`
		B [0]string `json:",omitempty"`
		C [0]Inner  `json:"c"`
		D *[0]bool  `json:"d,omitempty"`
		E [1]int    `json:"e,omitempty"`
		N int
	}
	// the same JSON name at depth 1 (through Inner2) and depth 2 (through Mid.Inner)
	DepthConflict struct {
		Mid
		Inner2
	}
	// the same JSON name under DIFFERENT Go names at different depths (Go's own shadowing does not
	// apply): encoding/json keeps the shallowest field, wherever it is declared
	LeafID struct {
		ID string `json:"id"`
	}
	MidSerial struct {
		LeafID
		Serial int32 `json:"id"`
	}
	TopSerial struct{ MidSerial } // depth 2 (string) listed before depth 1 (int32)
	MidWrap   struct{ LeafID }
	Shallow   struct {
		Code int32 `json:"id"`
	}
	SibDeepFirst struct { // the deeper field is met first
		MidWrap
		Shallow
	}
	SibShallowFirst struct { // the shallower field is met first
		Shallow
		MidWrap
	}
	OuterBeforeEmb struct { // an outer field declared before the embedded struct that has the same JSON name
		B string `json:"x"`
		InnerTagged
	}
	OuterAfterEmb struct {
		InnerTagged
		B string `json:"x"`
	}
)

// SameNameTypes returns non-recursive types that contain, at some depth, a different type with
// the same printed name (reflect.Type.String is not an identity).
func SameNameTypes() []reflect.Type {
	type Item struct{ N int }
	type inner = Item
	a := func() reflect.Type {
		type Item struct {
			Sub  inner
			Name string
		}
		return reflect.TypeOf(Item{})
	}()
	b := func() reflect.Type {
		type Item struct {
			Subs []*inner `json:"subs"`
			M    map[string]inner
		}
		return reflect.TypeOf([]Item{})
	}()
	return []reflect.Type{a, b}
}

// Catalog returns the declared catalogue.
func Catalog() []T {
	mkT := func(x any, class string) T {
		t := reflect.TypeOf(x)
		return T{Type: t, Desc: t.String(), Class: class}
	}
	var out []T
	for _, x := range []any{
		Inner{}, EmbVal{}, EmbPtr{}, Mid{}, Emb2{}, Emb2Ptr{}, ShadowAfter{}, ShadowBefore{}, Collide{}, CollideTagWins{}, EmbTagged{}, EmbTaggedPtr{}, EmbNamedInt{},
		SameLevel{}, SameLevelMixed{}, EmbHidden{}, Twice{}, Ints{}, Ptrs{}, Opt{}, NamedStruct{}, &NamedStruct{}, []NamedStruct{}, map[string]NamedStruct{},
		NamedSlice{}, NamedMap{}, NamedU8(0), NamedF32(0), MyInt(0), MyStr(""), MyBool(false), MyFloat(0), MySlice{}, MyMap{}, Described{},
		NoFields{}, EmptyS{}, HoldsEmpty{}, SameTag{}, TopOver{}, MidOver{}, TagForms{}, ZeroArr{}, ShadowGoName{}, ShadowGoNameDash{}, DepthConflict{}, TopSerial{}, MidSerial{}, SibDeepFirst{}, SibShallowFirst{}, OuterBeforeEmb{}, OuterAfterEmb{}, []ShadowGoName{}, []EmbVal{}, map[string]*EmbPtr{}, [2]Opt{}, struct {
			A EmbVal
			B *ShadowAfter
		}{},
	} {
		out = append(out, mkT(x, "catalog"))
	}
	for _, x := range []any{Marsh{}, MarshVal{}, time.Time{}, &time.Time{}, slog.Level(0), &big.Int{}, big.Int{}, []time.Time{}, map[string]time.Time{}, &big.Rat{}, &big.Float{}, []*big.Rat{}} {
		t := mkT(x, "marshaler")
		t.HasMarshaler = true
		out = append(out, t)
	}
	for _, x := range []any{RecSlice{}, RecX{}, RecY{}, RecMap{}, RecPtr{}, &RecPtr{}, []RecPtr{}, RecEmb{}, RecRing{}, RecGrid{}, HoldsRing{}} {
		t := mkT(x, "recursive")
		t.Recursive = true
		out = append(out, t)
	}
	out = append(out, mkT(RecUnexp{}, "catalog")) // recursion through an unexported field is invisible to encoding/json
	for i, t := range SameNameTypes() {
		out = append(out, T{Type: t, Desc: fmt.Sprintf("%s /*contains another type printed the same, variant %d*/", t, i), Class: "catalog"})
	}
	for _, x := range []any{BadFunc{}, BadChan{}, BadCplx{}, BadKey{}, BadUPtr{}, BadDeep{}, BadNamed{}, BadTwice{}, BadTwice2{}, OnlyBad{}, NamedFuncs{}, BadTagged{}, BadTaggedNest{}, &BadTagged{}, func() {}, make(chan int), complex64(0), map[int]int{}, []func(){}, map[string]chan int{}} {
		t := mkT(x, "unsupported")
		t.Unsupported = true
		out = append(out, t)
	}
	return out
}

// User types with their own MarshalJSON: in C04's domain only together with a TypeSchemas entry.
type (
	Celsius float64
	Flag    struct{ on bool }
	Stamp   struct{ T int64 }
	// UserTypes uses them in every position.
	UserTypes struct {
		V  Celsius
		P  *Celsius
		S  []Celsius
		M  map[string]Celsius
		A  [2]Celsius
		F  Flag  `json:"f"`
		PF *Flag `json:"pf,omitempty"`
		SS []*Stamp
		// the types with a default translation keep it next to the user's entries
		T  time.Time
		TP *time.Time `json:"tp,omitempty"`
		L  slog.Level
		RP *big.Rat
	}
)

func (c Celsius) MarshalJSON() ([]byte, error) {
	return []byte(fmt.Sprintf("\"%.1fC\"", float64(c))), nil
}
func (f Flag) MarshalJSON() ([]byte, error) {
	if f.on {
		return []byte("true"), nil
	}
	return []byte("false"), nil
}
func (s Stamp) MarshalJSON() ([]byte, error) { return []byte(fmt.Sprintf("[%d]", s.T)), nil }
