// Package par shards an index space over worker goroutines and keeps a
// per-worker journal of the case in flight so that a watchdog can name a
// call that does not return.
package par

import (
	"fmt"
	"os"
	"runtime"
	"strconv"
	"sync"
	"sync/atomic"
	"syscall"
	"time"
)

// Workers is the number of worker goroutines used by For.
var Workers = func() int {
	n := runtime.NumCPU()
	if n < 1 {
		n = 1
	}
	return n
}()

type slot struct {
	mu    sync.Mutex
	what  string
	since time.Time
	mem   []byte // optional mmap-backed copy of what, readable by the parent after a fatal crash
}

const slotSize = 8192

var journalMem []byte

// InitJournal backs the per-worker journal with a shared file mapping so that
// the parent process can read the cases in flight after a fatal runtime error
// (stack overflow, out of memory) killed the child.
func InitJournal(path string) {
	f, err := os.OpenFile(path, os.O_RDWR|os.O_CREATE|os.O_TRUNC, 0o644)
	if err != nil {
		return
	}
	defer f.Close()
	size := 256 * slotSize
	if f.Truncate(int64(size)) != nil {
		return
	}
	m, err := syscall.Mmap(int(f.Fd()), 0, size, syscall.PROT_READ|syscall.PROT_WRITE, syscall.MAP_SHARED)
	if err == nil {
		journalMem = m
	}
}

// ReadJournal returns the non-empty entries of a journal file.
func ReadJournal(path string) []string {
	b, err := os.ReadFile(path)
	if err != nil {
		return nil
	}
	var out []string
	for off := 0; off+slotSize <= len(b); off += slotSize {
		n := int(b[off]) | int(b[off+1])<<8
		if n > 0 && n <= slotSize-2 {
			out = append(out, string(b[off+2:off+2+n]))
		}
	}
	return out
}

var (
	slots   []*slot
	slotsMu sync.Mutex
	// HangAfter is the generous per-case watchdog (DESIGN §7.2).
	// It is a wall-clock bound, so it is far above anything a case takes even on a machine
	// that is busy with other work (the slowest cases take seconds); VERIF_HANG_S overrides it.
	HangAfter = hangAfter()
	// OnHang is called (once) with the description of the stuck case.
	OnHang func(what string)
)

func hangAfter() time.Duration {
	if v, err := strconv.Atoi(os.Getenv("VERIF_HANG_S")); err == nil && v > 0 {
		return time.Duration(v) * time.Second
	}
	return 900 * time.Second
}

func init() {
	go func() {
		for {
			time.Sleep(2 * time.Second)
			slotsMu.Lock()
			ss := append([]*slot(nil), slots...)
			slotsMu.Unlock()
			for _, s := range ss {
				s.mu.Lock()
				w, t := s.what, s.since
				s.mu.Unlock()
				if w != "" && time.Since(t) > HangAfter {
					if OnHang != nil {
						OnHang(w)
					} else {
						fmt.Fprintf(os.Stderr, "HANG: %s\n", w)
						os.Exit(3)
					}
				}
			}
		}
	}()
}

// Journal lets a worker say which case it is executing.
type Journal struct{ s *slot }

func (j Journal) Begin(what string) {
	j.s.mu.Lock()
	j.s.what, j.s.since = what, time.Now()
	if j.s.mem != nil {
		n := len(what)
		if n > slotSize-2 {
			n = slotSize - 2
		}
		copy(j.s.mem[2:], what[:n])
		j.s.mem[0], j.s.mem[1] = byte(n), byte(n>>8)
	}
	j.s.mu.Unlock()
}
func (j Journal) End() {
	j.s.mu.Lock()
	j.s.what = ""
	if j.s.mem != nil {
		j.s.mem[0], j.s.mem[1] = 0, 0
	}
	j.s.mu.Unlock()
}

// For runs fn(i) for every i in [0,n) on Workers goroutines. stop, if non-nil,
// is polled between chunks; when it returns true the remaining indices are
// skipped and For returns the number of indices that were executed.
func For(n int, stop func() bool, fn func(i int, j Journal)) int {
	var next, done atomic.Int64
	var wg sync.WaitGroup
	chunk := int64(1)
	if n > Workers*64 {
		chunk = int64(n / (Workers * 64))
		if chunk > 256 {
			chunk = 256
		}
	}
	for w := 0; w < Workers; w++ {
		wg.Add(1)
		s := &slot{}
		slotsMu.Lock()
		if journalMem != nil && (w+1)*slotSize <= len(journalMem) {
			// par.For calls are sequential: worker w reuses slot w
			s.mem = journalMem[w*slotSize : (w+1)*slotSize]
		}
		slots = append(slots, s)
		slotsMu.Unlock()
		go func() {
			defer wg.Done()
			j := Journal{s}
			for {
				if stop != nil && stop() {
					return
				}
				lo := next.Add(chunk) - chunk
				if lo >= int64(n) {
					return
				}
				hi := lo + chunk
				if hi > int64(n) {
					hi = int64(n)
				}
				for i := lo; i < hi; i++ {
					fn(int(i), j)
					done.Add(1)
				}
			}
		}()
	}
	wg.Wait()
	return int(done.Load())
}

// Call runs f and converts a panic into a non-empty string.
func Call(f func()) (panicked string) {
	defer func() {
		if r := recover(); r != nil {
			buf := make([]byte, 4096)
			buf = buf[:runtime.Stack(buf, false)]
			panicked = fmt.Sprintf("%v\n%s", r, buf)
		}
	}()
	f()
	return ""
}
