package ref

import "fmt"

// Meta validates schema documents against the bundled meta-schema of a draft
// (guard: generators must stay inside the vocabulary).
type Meta struct{ u *Universe }

// NewMeta builds the meta-schema universe from /repo's bundled files.
func NewMeta(repo string, d Draft) (*Meta, error) {
	loader, err := SuiteLoader(repo)
	if err != nil {
		return nil, err
	}
	uri := "https://json-schema.org/draft/2020-12/schema"
	if d == D07 {
		uri = "http://json-schema.org/draft-07/schema"
	}
	u, err := NewUniverseD(loader[uri], uri, loader, nil, d)
	if err != nil {
		return nil, err
	}
	if err := u.Closure(); err != nil {
		return nil, fmt.Errorf("meta-schema closure: %w", err)
	}
	return &Meta{u}, nil
}

// Valid reports whether the schema document is meta-schema-valid.
func (m *Meta) Valid(schemaText string) bool {
	v, err := Parse(schemaText)
	if err != nil {
		return false
	}
	r := m.u.Validate(v)
	return r.Valid && r.Err == nil && !r.Loop
}
