package ref

import (
	"encoding/json"
	"fmt"
	"math/big"
	"regexp"
	"sort"
	"strings"
	"unicode/utf8"
)

// R1: the reference validator. It works on raw JSON documents (decoded with
// exact numbers), follows DESIGN.md appendix A, and shares no code with the
// package under test.

type Draft int

const (
	D2020 Draft = iota
	D07
)

func (d Draft) String() string {
	if d == D07 {
		return "draft-07"
	}
	return "2020-12"
}

const (
	URI2020  = "https://json-schema.org/draft/2020-12/schema"
	URI07    = "http://json-schema.org/draft-07/schema#"
	URI07Sec = "https://json-schema.org/draft-07/schema#"
)

// subschema positions per draft (independent table, written from the two specifications)
var (
	single2020 = []string{"not", "if", "then", "else", "items", "contains", "additionalProperties", "propertyNames", "unevaluatedItems", "unevaluatedProperties", "contentSchema"}
	array2020  = []string{"allOf", "anyOf", "oneOf", "prefixItems"}
	map2020    = []string{"$defs", "properties", "patternProperties", "dependentSchemas"}

	single07 = []string{"not", "if", "then", "else", "additionalItems", "contains", "additionalProperties", "propertyNames", "contentSchema"}
	array07  = []string{"allOf", "anyOf", "oneOf"}
	map07    = []string{"definitions", "properties", "patternProperties"}
	// draft-07 unions: "items" (schema | array), "dependencies" (map of schema | string array)
)

// Node is one subschema position of an indexed document.
type Node struct {
	IsBool  bool
	BoolVal bool
	KW      map[string]any
	Sub     map[string]*Node
	SubArr  map[string][]*Node
	SubMap  map[string]map[string]*Node
	Base    URI
	Res     *Resource
	Doc     *Doc
	Ptr     string

	compiled bool
	pattern  *regexp.Regexp
	patProps []patProp
	enum     []*Val
	constV   *Val
	nums     map[string]*big.Rat
	ints     map[string]int
	required []string
	depReq   map[string][]string
	types    []string
	cerr     error
}

type patProp struct {
	src string
	re  *regexp.Regexp
	n   *Node
}

// Resource is a schema resource: a root or a subschema with its own (non-fragment) $id.
type Resource struct {
	URI     string
	Root    *Node
	Anchors map[string]*Node
	Dyn     map[string]*Node
}

// Doc is one schema document.
type Doc struct {
	Root      *Node
	Retrieval string
	Draft     Draft
}

// Universe is a root document plus everything a loader can supply.
type Universe struct {
	Draft     Draft
	Root      *Doc
	Resources map[string]*Resource
	Docs      map[string]*Doc
	Loader    map[string]string // retrieval URI -> JSON text
	Fail      map[string]bool
	Requests  []string // model call log, in request order
	IndexErr  error    // invalid schema found while indexing (duplicate anchor, bad $id, ...)

	loadedText map[*Resource]string
}

// DraftOf returns the draft a $schema value selects, and whether it is supported.
func DraftOf(schemaURI string, dflt Draft) (Draft, bool) {
	switch schemaURI {
	case "":
		return dflt, true
	case URI2020:
		return D2020, true
	case URI07, URI07Sec:
		return D07, true
	}
	return dflt, false
}

// NewUniverse indexes the root document (JSON text) retrieved from retrievalURI
// (may be empty). The root's draft comes from its $schema (2020-12 if absent).
func NewUniverse(rootText, retrievalURI string, loader map[string]string, fail map[string]bool) (*Universe, error) {
	return NewUniverseD(rootText, retrievalURI, loader, fail, D2020)
}

// NewUniverseD is NewUniverse with the draft assumed for a root without $schema.
func NewUniverseD(rootText, retrievalURI string, loader map[string]string, fail map[string]bool, dflt Draft) (*Universe, error) {
	raw, err := decodeNumber(rootText)
	if err != nil {
		return nil, err
	}
	u := &Universe{Resources: map[string]*Resource{}, Docs: map[string]*Doc{}, Loader: loader, Fail: fail}
	d := dflt
	if m, ok := raw.(map[string]any); ok {
		if s, ok := m["$schema"].(string); ok {
			dd, sup := DraftOf(s, dflt)
			if !sup {
				return nil, ErrUnsupportedDraft
			}
			d = dd
		}
	}
	u.Draft = d
	u.Root = u.index(raw, retrievalURI, d)
	return u, nil
}

var ErrUnsupportedDraft = fmt.Errorf("unsupported $schema")

func decodeNumber(text string) (any, error) {
	dec := json.NewDecoder(strings.NewReader(text))
	dec.UseNumber()
	var x any
	if err := dec.Decode(&x); err != nil {
		return nil, err
	}
	return x, nil
}

func (u *Universe) fail(format string, a ...any) {
	if u.IndexErr == nil {
		u.IndexErr = fmt.Errorf(format, a...)
	}
}

func (u *Universe) index(raw any, retrieval string, d Draft) *Doc {
	doc := &Doc{Retrieval: retrieval, Draft: d}
	base := ParseURI(retrieval)
	res := &Resource{URI: retrieval, Anchors: map[string]*Node{}, Dyn: map[string]*Node{}}
	doc.Root = u.walk(raw, base, res, doc, "", true)
	res.Root = doc.Root
	// the retrieval URI always names the document root, also when it has its own $id
	if _, dup := u.Resources[retrieval]; !dup {
		u.Resources[retrieval] = doc.Root.Res
	}
	u.Docs[retrieval] = doc
	return doc
}

func (u *Universe) walk(raw any, base URI, res *Resource, doc *Doc, ptr string, isRoot bool) *Node {
	n := &Node{Doc: doc, Ptr: ptr}
	switch x := raw.(type) {
	case bool:
		n.IsBool, n.BoolVal = true, x
		n.Base, n.Res = base, res
		return n
	case map[string]any:
		n.KW = x
	default:
		u.fail("schema at %q is neither object nor boolean", ptr)
		n.IsBool, n.BoolVal = true, true
		n.Base, n.Res = base, res
		return n
	}
	d := doc.Draft
	id, hasID := n.KW["$id"].(string)
	if d == D07 {
		if _, hasRef := n.KW["$ref"]; hasRef {
			hasID = false // siblings of $ref are ignored
		}
	}
	if hasID && id != "" {
		idu := ParseURI(id)
		if d == D07 && idu.HasFrag && idu.Fragment != "" {
			if strings.HasPrefix(id, "#") {
				name := id[1:]
				if _, dup := res.Anchors[name]; dup {
					u.fail("duplicate anchor %q", name)
				}
				res.Anchors[name] = n
			} else {
				u.fail("draft-07 $id with base and fragment is outside the oracle's domain: %q", id)
			}
		} else {
			if d == D2020 && idu.HasFrag && idu.Fragment != "" {
				u.fail("$id %q has a fragment", id)
			}
			nb := ResolveURI(base, idu).NoFrag()
			if !nb.IsAbs() {
				u.fail("$id %q does not resolve to an absolute URI", id)
			}
			base = nb
			if isRoot {
				// the document root keeps the resource object created by index()
				res.URI = nb.String()
			} else {
				res = &Resource{URI: nb.String(), Root: n, Anchors: map[string]*Node{}, Dyn: map[string]*Node{}}
			}
			if prev, dup := u.Resources[nb.String()]; dup && prev != res {
				u.fail("duplicate resource %q", nb.String())
			}
			u.Resources[nb.String()] = res
		}
	}
	n.Base, n.Res = base, res
	if isRoot && res.Root == nil {
		res.Root = n
	}
	if d == D2020 {
		if a, ok := n.KW["$anchor"].(string); ok && a != "" {
			if _, dup := res.Anchors[a]; dup {
				u.fail("duplicate anchor %q", a)
			}
			res.Anchors[a] = n
		}
		if a, ok := n.KW["$dynamicAnchor"].(string); ok && a != "" {
			if _, dup := res.Anchors[a]; dup {
				u.fail("duplicate anchor %q", a)
			}
			res.Anchors[a] = n
			res.Dyn[a] = n
		}
	}
	n.Sub = map[string]*Node{}
	n.SubArr = map[string][]*Node{}
	n.SubMap = map[string]map[string]*Node{}
	singles, arrays, maps := single2020, array2020, map2020
	if d == D07 {
		singles, arrays, maps = single07, array07, map07
	}
	for _, k := range singles {
		if v, ok := n.KW[k]; ok {
			n.Sub[k] = u.walk(v, base, res, doc, ptr+"/"+PointerEscape(k), false)
		}
	}
	for _, k := range arrays {
		if v, ok := n.KW[k].([]any); ok {
			for i, e := range v {
				n.SubArr[k] = append(n.SubArr[k], u.walk(e, base, res, doc, fmt.Sprintf("%s/%s/%d", ptr, k, i), false))
			}
			if len(v) == 0 {
				n.SubArr[k] = []*Node{}
			}
		}
	}
	for _, k := range maps {
		if v, ok := n.KW[k].(map[string]any); ok {
			m := map[string]*Node{}
			for _, key := range sortedKeys(v) {
				m[key] = u.walk(v[key], base, res, doc, ptr+"/"+PointerEscape(k)+"/"+PointerEscape(key), false)
			}
			n.SubMap[k] = m
		}
	}
	if d == D07 {
		switch v := n.KW["items"].(type) {
		case []any:
			n.SubArr["items"] = []*Node{}
			for i, e := range v {
				n.SubArr["items"] = append(n.SubArr["items"], u.walk(e, base, res, doc, fmt.Sprintf("%s/items/%d", ptr, i), false))
			}
		case nil:
		default:
			n.Sub["items"] = u.walk(v, base, res, doc, ptr+"/items", false)
		}
		if v, ok := n.KW["dependencies"].(map[string]any); ok {
			m := map[string]*Node{}
			dr := map[string][]string{}
			for _, key := range sortedKeys(v) {
				if arr, isArr := v[key].([]any); isArr {
					ss := []string{}
					for _, e := range arr {
						if s, ok := e.(string); ok {
							ss = append(ss, s)
						}
					}
					dr[key] = ss
				} else {
					m[key] = u.walk(v[key], base, res, doc, ptr+"/dependencies/"+PointerEscape(key), false)
				}
			}
			n.SubMap["dependencies"] = m
			n.depReq = dr
		}
	}
	return n
}

func sortedKeys[V any](m map[string]V) []string {
	ks := make([]string, 0, len(m))
	for k := range m {
		ks = append(ks, k)
	}
	sort.Strings(ks)
	return ks
}

// ---------------------------------------------------------------------------
// Reference resolution

// ErrNothing is returned when a reference designates nothing.
type ErrNothing struct{ Ref, Why string }

func (e *ErrNothing) Error() string {
	return fmt.Sprintf("reference %q designates nothing: %s", e.Ref, e.Why)
}

// Target resolves a $ref / $dynamicRef string lexically from node n. dynName is
// the plain-name fragment when the target carries a matching $dynamicAnchor.
func (u *Universe) Target(n *Node, ref string) (t *Node, dynName string, err error) {
	ru := ParseURI(ref)
	abs := ResolveURI(n.Base, ru)
	docPart := abs.NoFrag().String()
	res, ok := u.Resources[docPart]
	if !ok {
		// maybe a loader document
		if _, loaded := u.Docs[docPart]; !loaded {
			text, have := u.Loader[docPart]
			u.Requests = append(u.Requests, docPart)
			if !have {
				return nil, "", &ErrNothing{ref, "no document " + docPart}
			}
			if u.Fail[docPart] {
				return nil, "", &ErrNothing{ref, "loader fails for " + docPart}
			}
			raw, derr := decodeNumber(text)
			if derr != nil {
				return nil, "", &ErrNothing{ref, "bad document"}
			}
			d := u.Draft
			aliased := false
			if m, ok := raw.(map[string]any); ok {
				if s, ok := m["$schema"].(string); ok {
					dd, sup := DraftOf(s, u.Draft)
					if sup {
						d = dd
					}
				}
				// The same document fetched under a second URI (retrieval URI vs
				// canonical $id): an alias of the resource that is already indexed.
				if id, ok := m["$id"].(string); ok && id != "" {
					canon := ResolveURI(ParseURI(docPart), ParseURI(id)).NoFrag().String()
					if prev, ok := u.Resources[canon]; ok && canon != docPart && u.loadedText[prev] == text {
						u.Resources[docPart] = prev
						u.Docs[docPart] = prev.Root.Doc
						aliased = true
					}
				}
			}
			if !aliased {
				doc := u.index(raw, docPart, d)
				if u.loadedText == nil {
					u.loadedText = map[*Resource]string{}
				}
				u.loadedText[doc.Root.Res] = text
			}
		}
		res, ok = u.Resources[docPart]
		if !ok {
			return nil, "", &ErrNothing{ref, "no resource " + docPart}
		}
	}
	frag, okd := PercentDecode(abs.Fragment)
	if !okd {
		return nil, "", &ErrNothing{ref, "malformed fragment"}
	}
	if frag == "" {
		return res.Root, "", nil
	}
	if strings.HasPrefix(frag, "/") {
		t, why := pointerTarget(res.Root, frag)
		if t == nil {
			return nil, "", &ErrNothing{ref, why}
		}
		return t, "", nil
	}
	t, ok = res.Anchors[frag]
	if !ok {
		return nil, "", &ErrNothing{ref, "no anchor " + frag}
	}
	if res.Dyn[frag] == t {
		dynName = frag
	}
	return t, dynName, nil
}

// pointerTarget walks an RFC 6901 pointer through subschema positions only.
func pointerTarget(root *Node, ptr string) (*Node, string) {
	toks, ok := ParsePointer(ptr)
	if !ok {
		return nil, "invalid JSON pointer"
	}
	cur := root
	for i := 0; i < len(toks); {
		if cur.IsBool {
			return nil, "pointer descends into a boolean schema"
		}
		k := toks[i]
		if s, ok := cur.Sub[k]; ok {
			cur = s
			i++
			continue
		}
		if arr, ok := cur.SubArr[k]; ok {
			if i+1 >= len(toks) {
				return nil, "pointer ends on a schema array"
			}
			idx, ok := ArrayIndex(toks[i+1])
			if !ok || idx >= len(arr) {
				return nil, "bad array index " + toks[i+1]
			}
			cur = arr[idx]
			i += 2
			continue
		}
		if m, ok := cur.SubMap[k]; ok {
			if i+1 >= len(toks) {
				return nil, "pointer ends on a schema map"
			}
			s, ok := m[toks[i+1]]
			if !ok {
				return nil, "no key " + toks[i+1]
			}
			cur = s
			i += 2
			continue
		}
		return nil, "no subschema position " + k
	}
	return cur, ""
}

// Closure resolves every $ref/$dynamicRef of every indexed document (indexing
// further documents as needed). It returns the first reference that designates
// nothing, mirroring "Resolve returns an error".
func (u *Universe) Closure() error {
	if u.IndexErr != nil {
		return u.IndexErr
	}
	done := map[*Doc]bool{}
	for {
		var todo []*Doc
		for _, k := range sortedKeys(u.Docs) {
			if d := u.Docs[k]; !done[d] {
				todo = append(todo, d)
			}
		}
		if len(todo) == 0 {
			break
		}
		for _, d := range todo {
			done[d] = true
			var err error
			forEachNode(d.Root, func(n *Node) {
				if err != nil || n.IsBool {
					return
				}
				if r, ok := n.KW["$ref"].(string); ok {
					if _, _, e := u.Target(n, r); e != nil {
						err = e
						return
					}
					if d.Draft == D07 {
						return
					}
				}
				if d.Draft == D2020 {
					if r, ok := n.KW["$dynamicRef"].(string); ok {
						if _, _, e := u.Target(n, r); e != nil {
							err = e
						}
					}
				}
				if e := n.compile(); e != nil {
					err = e
				}
			})
			if err != nil {
				return err
			}
			if u.IndexErr != nil {
				return u.IndexErr
			}
		}
	}
	return nil
}

func forEachNode(n *Node, f func(*Node)) {
	f(n)
	if n.IsBool {
		return
	}
	// In draft-07 the siblings of $ref are ignored, but they are still part of
	// the document (pointer targets, $id declarations were already skipped).
	for _, k := range sortedKeys(n.Sub) {
		forEachNode(n.Sub[k], f)
	}
	for _, k := range sortedKeys(n.SubArr) {
		for _, c := range n.SubArr[k] {
			forEachNode(c, f)
		}
	}
	for _, k := range sortedKeys(n.SubMap) {
		m := n.SubMap[k]
		for _, key := range sortedKeys(m) {
			forEachNode(m[key], f)
		}
	}
}

// ---------------------------------------------------------------------------
// Evaluation

// Ann is the annotation result of one schema object on one instance location.
type Ann struct {
	AllProps bool
	Props    map[string]bool
	Prefix   int
	AllItems bool
	Items    map[int]bool
}

func (a *Ann) merge(b *Ann) {
	if b.AllProps {
		a.AllProps = true
	}
	for k := range b.Props {
		if a.Props == nil {
			a.Props = map[string]bool{}
		}
		a.Props[k] = true
	}
	if b.Prefix > a.Prefix {
		a.Prefix = b.Prefix
	}
	if b.AllItems {
		a.AllItems = true
	}
	for k := range b.Items {
		if a.Items == nil {
			a.Items = map[int]bool{}
		}
		a.Items[k] = true
	}
}

// Ctx carries per-evaluation facts the caller needs to know.
type Ctx struct {
	u         *Universe
	scope     []*Resource
	depth     int
	Undefined bool  // a multipleOf pair outside the exactness domain was met
	Loop      bool  // recursion without instance descent (outside the domain)
	Err       error // a reference designated nothing during evaluation
	Touched   int   // number of type-applicable assertion/applicator keywords evaluated
}

// Result of a reference evaluation.
type Result struct {
	Valid     bool
	Undefined bool
	Loop      bool
	Err       error
	Touched   int
}

// Validate evaluates the root document on inst.
func (u *Universe) Validate(inst *Val) Result {
	return u.ValidateAt(u.Root.Root, inst)
}

// ValidateAt evaluates node n as if it were the root.
func (u *Universe) ValidateAt(n *Node, inst *Val) Result {
	c := &Ctx{u: u}
	ok, _ := c.eval(n, inst)
	return Result{Valid: ok, Undefined: c.Undefined, Loop: c.Loop, Err: c.Err, Touched: c.Touched}
}

const maxDepth = 400

func (c *Ctx) eval(n *Node, inst *Val) (bool, *Ann) {
	if n.IsBool {
		return n.BoolVal, &Ann{}
	}
	c.depth++
	defer func() { c.depth-- }()
	if c.depth > maxDepth {
		c.Loop = true
		return false, &Ann{}
	}
	if err := n.compile(); err != nil {
		if c.Err == nil {
			c.Err = err
		}
		return false, &Ann{}
	}
	c.scope = append(c.scope, n.Res)
	defer func() { c.scope = c.scope[:len(c.scope)-1] }()

	d := n.Doc.Draft
	ok := true
	ann := &Ann{}
	sub := func(t *Node) bool { // in-place applicator: same instance, annotations kept on success
		v, a := c.eval(t, inst)
		if v {
			ann.merge(a)
		}
		return v
	}

	if r, has := n.KW["$ref"].(string); has {
		t, _, err := c.u.Target(n, r)
		if err != nil {
			if c.Err == nil {
				c.Err = err
			}
			return false, &Ann{}
		}
		if d == D07 {
			c.Touched++
			v, _ := c.eval(t, inst)
			return v, &Ann{}
		}
		c.Touched++
		if !sub(t) {
			ok = false
		}
	}
	if d == D2020 {
		if r, has := n.KW["$dynamicRef"].(string); has {
			t, dyn, err := c.u.Target(n, r)
			if err != nil {
				if c.Err == nil {
					c.Err = err
				}
				return false, &Ann{}
			}
			if dyn != "" {
				for _, res := range c.scope { // outermost first
					if dn, ok := res.Dyn[dyn]; ok {
						t = dn
						break
					}
				}
			}
			c.Touched++
			if !sub(t) {
				ok = false
			}
		}
	}
	if arr, has := n.SubArr["allOf"]; has {
		c.Touched++
		for _, t := range arr {
			if !sub(t) {
				ok = false
			}
		}
	}
	if arr, has := n.SubArr["anyOf"]; has {
		c.Touched++
		any := false
		for _, t := range arr {
			if sub(t) {
				any = true
			}
		}
		if !any {
			ok = false
		}
	}
	if arr, has := n.SubArr["oneOf"]; has {
		c.Touched++
		cnt := 0
		for _, t := range arr {
			if sub(t) {
				cnt++
			}
		}
		if cnt != 1 {
			ok = false
		}
	}
	if t, has := n.Sub["not"]; has {
		c.Touched++
		if v, _ := c.eval(t, inst); v {
			ok = false
		}
	}
	if t, has := n.Sub["if"]; has {
		c.Touched++
		var branch *Node
		if sub(t) {
			branch = n.Sub["then"]
		} else {
			branch = n.Sub["else"]
		}
		if branch != nil && !sub(branch) {
			ok = false
		}
	}

	// assertions on any type
	if n.types != nil {
		c.Touched++
		if !typeMatches(n.types, inst) {
			ok = false
		}
	}
	if n.enum != nil {
		c.Touched++
		found := false
		for _, e := range n.enum {
			if Equal(e, inst) {
				found = true
			}
		}
		if !found {
			ok = false
		}
	}
	if n.constV != nil {
		c.Touched++
		if !Equal(n.constV, inst) {
			ok = false
		}
	}

	switch inst.K {
	case Num:
		if m, has := n.nums["multipleOf"]; has {
			c.Touched++
			if !MultipleOfAdmitted(m, inst.N) {
				c.Undefined = true
			} else if q := new(big.Rat).Quo(inst.N, m); !q.IsInt() {
				ok = false
			}
		}
		if m, has := n.nums["minimum"]; has {
			c.Touched++
			if inst.N.Cmp(m) < 0 {
				ok = false
			}
		}
		if m, has := n.nums["maximum"]; has {
			c.Touched++
			if inst.N.Cmp(m) > 0 {
				ok = false
			}
		}
		if m, has := n.nums["exclusiveMinimum"]; has {
			c.Touched++
			if inst.N.Cmp(m) <= 0 {
				ok = false
			}
		}
		if m, has := n.nums["exclusiveMaximum"]; has {
			c.Touched++
			if inst.N.Cmp(m) >= 0 {
				ok = false
			}
		}
	case Str:
		l := utf8.RuneCountInString(inst.S)
		if m, has := n.ints["minLength"]; has {
			c.Touched++
			if l < m {
				ok = false
			}
		}
		if m, has := n.ints["maxLength"]; has {
			c.Touched++
			if l > m {
				ok = false
			}
		}
		if n.pattern != nil {
			c.Touched++
			if !n.pattern.MatchString(inst.S) {
				ok = false
			}
		}
	case Arr:
		if !c.evalArray(n, inst, ann, d) {
			ok = false
		}
	case Obj:
		if !c.evalObject(n, inst, ann, d, sub) {
			ok = false
		}
	}
	if !ok {
		return false, &Ann{}
	}
	return true, ann
}

func (c *Ctx) child(t *Node, inst *Val) bool {
	v, _ := c.eval(t, inst)
	return v
}

func (c *Ctx) evalArray(n *Node, inst *Val, ann *Ann, d Draft) bool {
	ok := true
	if d == D07 {
		if arr, has := n.SubArr["items"]; has {
			c.Touched++
			for i, t := range arr {
				if i >= len(inst.A) {
					break
				}
				if !c.child(t, inst.A[i]) {
					ok = false
				}
			}
			if t, has := n.Sub["additionalItems"]; has {
				for i := len(arr); i < len(inst.A); i++ {
					if !c.child(t, inst.A[i]) {
						ok = false
					}
				}
			}
		} else if t, has := n.Sub["items"]; has {
			c.Touched++
			for _, e := range inst.A {
				if !c.child(t, e) {
					ok = false
				}
			}
		}
	} else {
		arr := n.SubArr["prefixItems"]
		if _, has := n.SubArr["prefixItems"]; has {
			c.Touched++
			for i, t := range arr {
				if i >= len(inst.A) {
					break
				}
				if !c.child(t, inst.A[i]) {
					ok = false
				}
			}
			p := len(arr)
			if len(inst.A) < p {
				p = len(inst.A)
			}
			if p > ann.Prefix {
				ann.Prefix = p
			}
		}
		if t, has := n.Sub["items"]; has {
			c.Touched++
			for i := len(arr); i < len(inst.A); i++ {
				if !c.child(t, inst.A[i]) {
					ok = false
				}
			}
			ann.AllItems = true
		}
	}
	if t, has := n.Sub["contains"]; has {
		c.Touched++
		cnt := 0
		for i, e := range inst.A {
			if c.child(t, e) {
				cnt++
				if d == D2020 {
					if ann.Items == nil {
						ann.Items = map[int]bool{}
					}
					ann.Items[i] = true
				}
			}
		}
		minC, maxC := 1, -1
		if d == D2020 {
			if m, has := n.ints["minContains"]; has {
				minC = m
			}
			if m, has := n.ints["maxContains"]; has {
				maxC = m
			}
		}
		if cnt < minC || (maxC >= 0 && cnt > maxC) {
			ok = false
		}
	}
	if m, has := n.ints["minItems"]; has {
		c.Touched++
		if len(inst.A) < m {
			ok = false
		}
	}
	if m, has := n.ints["maxItems"]; has {
		c.Touched++
		if len(inst.A) > m {
			ok = false
		}
	}
	if b, _ := n.KW["uniqueItems"].(bool); b {
		c.Touched++
		for i := range inst.A {
			for j := 0; j < i; j++ {
				if Equal(inst.A[i], inst.A[j]) {
					ok = false
				}
			}
		}
	}
	if d == D2020 {
		if t, has := n.Sub["unevaluatedItems"]; has {
			c.Touched++
			if !ann.AllItems {
				for i := ann.Prefix; i < len(inst.A); i++ {
					if ann.Items[i] {
						continue
					}
					if !c.child(t, inst.A[i]) {
						ok = false
					}
				}
			}
			ann.AllItems = true
		}
	}
	return ok
}

func (c *Ctx) evalObject(n *Node, inst *Val, ann *Ann, d Draft, sub func(*Node) bool) bool {
	ok := true
	local := map[string]bool{}
	if m, has := n.SubMap["properties"]; has {
		c.Touched++
		for _, k := range inst.Keys {
			if t, has := m[k]; has {
				local[k] = true
				if !c.child(t, inst.O[k]) {
					ok = false
				}
			}
		}
	}
	if len(n.patProps) > 0 {
		c.Touched++
		for _, k := range inst.Keys {
			for _, pp := range n.patProps {
				if pp.re.MatchString(k) {
					local[k] = true
					if !c.child(pp.n, inst.O[k]) {
						ok = false
					}
				}
			}
		}
	}
	if t, has := n.Sub["additionalProperties"]; has {
		c.Touched++
		for _, k := range inst.Keys {
			if !local[k] {
				if !c.child(t, inst.O[k]) {
					ok = false
				}
				local[k] = true
			}
		}
	}
	for k := range local {
		if ann.Props == nil {
			ann.Props = map[string]bool{}
		}
		ann.Props[k] = true
	}
	if t, has := n.Sub["propertyNames"]; has {
		c.Touched++
		for _, k := range inst.Keys {
			if !c.child(t, &Val{K: Str, S: k}) {
				ok = false
			}
		}
	}
	if m, has := n.ints["minProperties"]; has {
		c.Touched++
		if len(inst.Keys) < m {
			ok = false
		}
	}
	if m, has := n.ints["maxProperties"]; has {
		c.Touched++
		if len(inst.Keys) > m {
			ok = false
		}
	}
	if n.required != nil {
		c.Touched++
		for _, r := range n.required {
			if _, has := inst.O[r]; !has {
				ok = false
			}
		}
	}
	if n.depReq != nil {
		c.Touched++
		for _, k := range sortedKeys(n.depReq) {
			if _, has := inst.O[k]; has {
				for _, r := range n.depReq[k] {
					if _, has := inst.O[r]; !has {
						ok = false
					}
				}
			}
		}
	}
	depKey := "dependentSchemas"
	if d == D07 {
		depKey = "dependencies"
	}
	if m, has := n.SubMap[depKey]; has && len(m) > 0 {
		c.Touched++
		for _, k := range sortedKeys(m) {
			if _, has := inst.O[k]; has {
				if !sub(m[k]) {
					ok = false
				}
			}
		}
	}
	if d == D2020 {
		if t, has := n.Sub["unevaluatedProperties"]; has {
			c.Touched++
			if !ann.AllProps {
				for _, k := range inst.Keys {
					if ann.Props[k] {
						continue
					}
					if !c.child(t, inst.O[k]) {
						ok = false
					}
				}
			}
			ann.AllProps = true
		}
	}
	return ok
}

func typeMatches(types []string, inst *Val) bool {
	for _, t := range types {
		switch t {
		case "null":
			if inst.K == Null {
				return true
			}
		case "boolean":
			if inst.K == Bool {
				return true
			}
		case "number":
			if inst.K == Num {
				return true
			}
		case "integer":
			if inst.K == Num && inst.N.IsInt() {
				return true
			}
		case "string":
			if inst.K == Str {
				return true
			}
		case "array":
			if inst.K == Arr {
				return true
			}
		case "object":
			if inst.K == Obj {
				return true
			}
		}
	}
	return false
}

var two53 = new(big.Rat).SetInt(new(big.Int).Lsh(big.NewInt(1), 53))

// MultipleOfAdmitted is the exactness guard of DESIGN §6 C01: both operands
// dyadic, |quotient| < 2^53, divisor > 0, both operands and the exact quotient
// representable in float64 (so IEEE division returns the mathematical quotient).
func MultipleOfAdmitted(div, x *big.Rat) bool {
	if div.Sign() <= 0 {
		return false
	}
	if !isDyadic(div) || !isDyadic(x) {
		return false
	}
	if _, exact := div.Float64(); !exact {
		return false
	}
	if _, exact := x.Float64(); !exact {
		return false
	}
	q := new(big.Rat).Quo(x, div)
	if new(big.Rat).Abs(q).Cmp(two53) >= 0 {
		return false
	}
	if _, exact := q.Float64(); !exact {
		return false
	}
	return true
}

func isDyadic(r *big.Rat) bool {
	d := r.Denom()
	return new(big.Int).And(d, new(big.Int).Sub(d, big.NewInt(1))).Sign() == 0
}

// compile pre-parses keyword values.
func (n *Node) compile() error {
	if n.compiled {
		return n.cerr
	}
	n.compiled = true
	n.nums = map[string]*big.Rat{}
	n.ints = map[string]int{}
	fail := func(f string, a ...any) error {
		n.cerr = fmt.Errorf(f, a...)
		return n.cerr
	}
	if _, has := n.KW["$ref"]; has && n.Doc.Draft == D07 {
		return nil // everything else is ignored
	}
	switch t := n.KW["type"].(type) {
	case string:
		n.types = []string{t}
	case []any:
		n.types = []string{}
		for _, e := range t {
			if s, ok := e.(string); ok {
				n.types = append(n.types, s)
			}
		}
	}
	if e, ok := n.KW["enum"].([]any); ok {
		n.enum = []*Val{}
		for _, x := range e {
			v, err := FromAny(x)
			if err != nil {
				return fail("enum: %v", err)
			}
			n.enum = append(n.enum, v)
		}
	}
	if cv, ok := n.KW["const"]; ok {
		v, err := FromAny(cv)
		if err != nil {
			return fail("const: %v", err)
		}
		n.constV = v
	}
	for _, k := range []string{"multipleOf", "minimum", "maximum", "exclusiveMinimum", "exclusiveMaximum"} {
		if x, ok := n.KW[k].(json.Number); ok {
			r, ok := new(big.Rat).SetString(string(x))
			if !ok {
				return fail("%s: bad number", k)
			}
			n.nums[k] = r
		}
	}
	for _, k := range []string{"minLength", "maxLength", "minItems", "maxItems", "minContains", "maxContains", "minProperties", "maxProperties"} {
		if x, ok := n.KW[k].(json.Number); ok {
			r, ok := new(big.Rat).SetString(string(x))
			if !ok || !r.IsInt() || !r.Num().IsInt64() {
				return fail("%s: not an integer", k)
			}
			n.ints[k] = int(r.Num().Int64())
		}
	}
	if p, ok := n.KW["pattern"].(string); ok {
		re, err := regexp.Compile(p)
		if err != nil {
			return fail("pattern: %v", err)
		}
		n.pattern = re
	}
	if m, ok := n.SubMap["patternProperties"]; ok {
		for _, k := range sortedKeys(m) {
			re, err := regexp.Compile(k)
			if err != nil {
				return fail("patternProperties: %v", err)
			}
			n.patProps = append(n.patProps, patProp{k, re, m[k]})
		}
	}
	if r, ok := n.KW["required"].([]any); ok {
		n.required = []string{}
		for _, e := range r {
			if s, ok := e.(string); ok {
				n.required = append(n.required, s)
			}
		}
	}
	if n.Doc.Draft == D2020 {
		if m, ok := n.KW["dependentRequired"].(map[string]any); ok {
			n.depReq = map[string][]string{}
			for k, v := range m {
				ss := []string{}
				if arr, ok := v.([]any); ok {
					for _, e := range arr {
						if s, ok := e.(string); ok {
							ss = append(ss, s)
						}
					}
				}
				n.depReq[k] = ss
			}
		}
	}
	return nil
}
