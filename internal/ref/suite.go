package ref

import (
	"encoding/json"
	"fmt"
	"os"
	"path/filepath"
	"sort"
	"strings"
)

// SuiteLoader returns the retrieval-URI -> text map the official suite needs:
// testdata/remotes at http://localhost:1234/ and the bundled meta-schemas.
func SuiteLoader(repo string) (map[string]string, error) {
	m := map[string]string{}
	root := filepath.Join(repo, "jsonschema", "testdata", "remotes")
	err := filepath.Walk(root, func(p string, info os.FileInfo, err error) error {
		if err != nil || info.IsDir() || !strings.HasSuffix(p, ".json") {
			return err
		}
		b, err := os.ReadFile(p)
		if err != nil {
			return err
		}
		rel, _ := filepath.Rel(root, p)
		m["http://localhost:1234/"+filepath.ToSlash(rel)] = string(b)
		return nil
	})
	if err != nil {
		return nil, err
	}
	meta := filepath.Join(repo, "jsonschema", "meta-schemas")
	add := func(uri, file string) error {
		b, err := os.ReadFile(filepath.Join(meta, file))
		if err != nil {
			return err
		}
		m[uri] = string(b)
		return nil
	}
	if err := add("https://json-schema.org/draft/2020-12/schema", "draft2020-12/schema.json"); err != nil {
		return nil, err
	}
	for _, v := range []string{"meta-data", "content", "core", "applicator", "validation", "format-annotation", "unevaluated"} {
		if err := add("https://json-schema.org/draft/2020-12/meta/"+v, "draft2020-12/meta/"+v+".json"); err != nil {
			return nil, err
		}
	}
	for _, u := range []string{"https://json-schema.org/draft-07/schema", "http://json-schema.org/draft-07/schema"} {
		if err := add(u, "draft7/schema.json"); err != nil {
			return nil, err
		}
	}
	return m, nil
}

// SuiteCase is one (schema, instance, expected) triple of the official suite.
type SuiteCase struct {
	File, Group, Test string
	Schema            string
	Data              string
	Valid             bool
	Draft             Draft
}

// LoadSuite reads testdata/<dir>/*.json.
func LoadSuite(repo string) ([]SuiteCase, error) {
	var out []SuiteCase
	for _, dd := range []struct {
		dir string
		d   Draft
	}{{"draft2020-12", D2020}, {"draft7", D07}} {
		files, _ := filepath.Glob(filepath.Join(repo, "jsonschema", "testdata", dd.dir, "*.json"))
		sort.Strings(files)
		for _, f := range files {
			b, err := os.ReadFile(f)
			if err != nil {
				return nil, err
			}
			var groups []struct {
				Description string
				Schema      json.RawMessage
				Tests       []struct {
					Description string
					Data        json.RawMessage
					Valid       bool
				}
			}
			if err := json.Unmarshal(b, &groups); err != nil {
				return nil, fmt.Errorf("%s: %v", f, err)
			}
			for _, g := range groups {
				for _, t := range g.Tests {
					out = append(out, SuiteCase{filepath.Base(f), g.Description, t.Description, string(g.Schema), string(t.Data), t.Valid, dd.d})
				}
			}
		}
	}
	return out, nil
}

// CheckSuite runs R1 on every official case and returns the mismatches.
func CheckSuite(repo string) (n int, bad []string, err error) {
	loader, err := SuiteLoader(repo)
	if err != nil {
		return 0, nil, err
	}
	cases, err := LoadSuite(repo)
	if err != nil {
		return 0, nil, err
	}
	for _, c := range cases {
		n++
		u, err := NewUniverseD(c.Schema, "", loader, nil, c.Draft)
		if err != nil {
			bad = append(bad, fmt.Sprintf("%s / %s / %s: universe: %v", c.File, c.Group, c.Test, err))
			continue
		}
		if err := u.Closure(); err != nil {
			bad = append(bad, fmt.Sprintf("%s / %s / %s: closure: %v", c.File, c.Group, c.Test, err))
			continue
		}
		inst, err := Parse(c.Data)
		if err != nil {
			bad = append(bad, fmt.Sprintf("%s / %s / %s: instance: %v", c.File, c.Group, c.Test, err))
			continue
		}
		r := u.Validate(inst)
		if r.Err != nil || r.Loop {
			bad = append(bad, fmt.Sprintf("%s / %s / %s: err=%v loop=%v", c.File, c.Group, c.Test, r.Err, r.Loop))
			continue
		}
		if r.Undefined {
			continue // multipleOf outside the exactness domain: R1 has no opinion
		}
		if r.Valid != c.Valid {
			bad = append(bad, fmt.Sprintf("%s / %s / %s: R1=%v expected=%v", c.File, c.Group, c.Test, r.Valid, c.Valid))
		}
	}
	return n, bad, nil
}
