// Package ref holds the reference models (oracles). They share no code with the
// package under test and import only the standard library.
package ref

import (
	"bytes"
	"encoding/json"
	"fmt"
	"math/big"
	"reflect"
	"sort"
	"strconv"
	"strings"
)

// Kind of a JSON value.
type Kind int

const (
	Null Kind = iota
	Bool
	Num
	Str
	Arr
	Obj
)

func (k Kind) String() string {
	return [...]string{"null", "boolean", "number", "string", "array", "object"}[k]
}

// Val is a JSON value in the oracle's own representation (R2): numbers are exact
// rationals, objects are key-sorted.
type Val struct {
	K    Kind
	B    bool
	N    *big.Rat
	S    string
	A    []*Val
	O    map[string]*Val
	Keys []string // sorted
	Text string   // original number text, if parsed from text

	canon string
}

// Parse decodes one JSON text with exact numbers.
func Parse(text string) (*Val, error) {
	dec := json.NewDecoder(strings.NewReader(text))
	dec.UseNumber()
	var x any
	if err := dec.Decode(&x); err != nil {
		return nil, err
	}
	if dec.More() {
		return nil, fmt.Errorf("trailing data")
	}
	return FromAny(x)
}

// MustParse is Parse for generator constants.
func MustParse(text string) *Val {
	v, err := Parse(text)
	if err != nil {
		panic(fmt.Sprintf("ref.MustParse(%q): %v", text, err))
	}
	return v
}

// FromAny converts a tree decoded with Decoder.UseNumber.
func FromAny(x any) (*Val, error) {
	v, err := fromAny(x)
	if err == nil {
		v.Canon()
	}
	return v, err
}

func fromAny(x any) (*Val, error) {
	switch x := x.(type) {
	case nil:
		return &Val{K: Null}, nil
	case bool:
		return &Val{K: Bool, B: x}, nil
	case json.Number:
		r, ok := new(big.Rat).SetString(string(x))
		if !ok {
			return nil, fmt.Errorf("number %q out of the oracle's range", string(x))
		}
		return &Val{K: Num, N: r, Text: string(x)}, nil
	case string:
		return &Val{K: Str, S: x}, nil
	case []any:
		v := &Val{K: Arr, A: make([]*Val, len(x))}
		for i, e := range x {
			c, err := fromAny(e)
			if err != nil {
				return nil, err
			}
			v.A[i] = c
		}
		return v, nil
	case map[string]any:
		v := &Val{K: Obj, O: make(map[string]*Val, len(x))}
		for k, e := range x {
			c, err := fromAny(e)
			if err != nil {
				return nil, err
			}
			v.O[k] = c
			v.Keys = append(v.Keys, k)
		}
		sort.Strings(v.Keys)
		return v, nil
	}
	return nil, fmt.Errorf("unexpected %T", x)
}

// Canon returns the canonical text of v; two values are JSON-equal iff their
// canonical texts are equal. No Unicode normalisation is applied.
func (v *Val) Canon() string {
	if v.canon != "" {
		return v.canon
	}
	var b strings.Builder
	v.writeCanon(&b)
	v.canon = b.String()
	return v.canon
}

func (v *Val) writeCanon(b *strings.Builder) {
	switch v.K {
	case Null:
		b.WriteString("null")
	case Bool:
		if v.B {
			b.WriteString("true")
		} else {
			b.WriteString("false")
		}
	case Num:
		b.WriteString("n:")
		b.WriteString(v.N.String())
	case Str:
		b.WriteString(strconv.Quote(v.S))
	case Arr:
		b.WriteByte('[')
		for i, e := range v.A {
			if i > 0 {
				b.WriteByte(',')
			}
			b.WriteString(e.Canon())
		}
		b.WriteByte(']')
	case Obj:
		b.WriteByte('{')
		for i, k := range v.Keys {
			if i > 0 {
				b.WriteByte(',')
			}
			b.WriteString(strconv.Quote(k))
			b.WriteByte(':')
			b.WriteString(v.O[k].Canon())
		}
		b.WriteByte('}')
	}
}

// Equal is JSON value equality.
func Equal(a, b *Val) bool { return a.Canon() == b.Canon() }

// IsInt reports whether a number has no fractional part.
func (v *Val) IsInt() bool { return v.K == Num && v.N.IsInt() }

// Nodes counts the nodes of the value tree.
func (v *Val) Nodes() int {
	n := 1
	for _, e := range v.A {
		n += e.Nodes()
	}
	for _, e := range v.O {
		n += e.Nodes()
	}
	return n
}

// JSON serialises v; integers are written without fraction or exponent, other
// numbers with their original text or an exact decimal expansion.
func (v *Val) JSON() string {
	var b bytes.Buffer
	v.writeJSON(&b)
	return b.String()
}

func (v *Val) writeJSON(b *bytes.Buffer) {
	switch v.K {
	case Null:
		b.WriteString("null")
	case Bool:
		b.WriteString(strconv.FormatBool(v.B))
	case Num:
		b.WriteString(NumText(v.N))
	case Str:
		q, _ := json.Marshal(v.S)
		b.Write(q)
	case Arr:
		b.WriteByte('[')
		for i, e := range v.A {
			if i > 0 {
				b.WriteByte(',')
			}
			e.writeJSON(b)
		}
		b.WriteByte(']')
	case Obj:
		b.WriteByte('{')
		for i, k := range v.Keys {
			if i > 0 {
				b.WriteByte(',')
			}
			q, _ := json.Marshal(k)
			b.Write(q)
			b.WriteByte(':')
			v.O[k].writeJSON(b)
		}
		b.WriteByte('}')
	}
}

// NumText writes a rational as a JSON number: integers in full, dyadic and
// decimal fractions exactly, anything else with 40 digits.
func NumText(r *big.Rat) string {
	if r.IsInt() {
		return r.Num().String()
	}
	// exact if the denominator divides a power of ten
	for prec := 1; prec <= 400; prec++ {
		s := r.FloatString(prec)
		if back, ok := new(big.Rat).SetString(s); ok && back.Cmp(r) == 0 {
			return s
		}
	}
	return r.FloatString(40)
}

// Plain returns the canonical encoding/json decoding of v (float64 numbers,
// []any, map[string]any).
func (v *Val) Plain() any {
	var x any
	if err := json.Unmarshal([]byte(v.JSON()), &x); err != nil {
		panic(err)
	}
	return x
}

// ExactFloat64 reports whether the number is exactly representable in float64.
func ExactFloat64(r *big.Rat) (float64, bool) {
	f, exact := r.Float64()
	return f, exact
}

// --------------------------------------------------------------------------
// Canonical form of an arbitrary Go representation (R2, reflective half).

var jsonNumberType = reflect.TypeOf(json.Number(""))

// CanonGo returns the canonical text of the JSON value carried by a Go value.
// ok is false when the value is outside the domain (nil slice, nil map, struct,
// NaN, non-string map key, json.Number that is not a JSON number, ...).
func CanonGo(x any) (string, bool) {
	var b strings.Builder
	ok := canonGo(&b, reflect.ValueOf(x))
	return b.String(), ok
}

func canonGo(b *strings.Builder, v reflect.Value) bool {
	for v.IsValid() && (v.Kind() == reflect.Pointer || v.Kind() == reflect.Interface) {
		if v.IsNil() {
			b.WriteString("null")
			return true
		}
		v = v.Elem()
	}
	if !v.IsValid() {
		b.WriteString("null")
		return true
	}
	if v.Type() == jsonNumberType {
		s := v.String()
		if !validJSONNumber(s) {
			return false
		}
		r, ok := new(big.Rat).SetString(s)
		if !ok {
			return false
		}
		b.WriteString("n:")
		b.WriteString(r.String())
		return true
	}
	switch v.Kind() {
	case reflect.Bool:
		b.WriteString(strconv.FormatBool(v.Bool()))
	case reflect.Int, reflect.Int8, reflect.Int16, reflect.Int32, reflect.Int64:
		b.WriteString("n:")
		b.WriteString(new(big.Rat).SetInt64(v.Int()).String())
	case reflect.Uint, reflect.Uint8, reflect.Uint16, reflect.Uint32, reflect.Uint64, reflect.Uintptr:
		b.WriteString("n:")
		b.WriteString(new(big.Rat).SetInt(new(big.Int).SetUint64(v.Uint())).String())
	case reflect.Float32, reflect.Float64:
		r := new(big.Rat)
		if r.SetFloat64(v.Float()) == nil {
			return false
		}
		b.WriteString("n:")
		b.WriteString(r.String())
	case reflect.String:
		b.WriteString(strconv.Quote(v.String()))
	case reflect.Slice:
		if v.IsNil() {
			return false
		}
		fallthrough
	case reflect.Array:
		b.WriteByte('[')
		for i := 0; i < v.Len(); i++ {
			if i > 0 {
				b.WriteByte(',')
			}
			if !canonGo(b, v.Index(i)) {
				return false
			}
		}
		b.WriteByte(']')
	case reflect.Map:
		if v.IsNil() || v.Type().Key().Kind() != reflect.String {
			return false
		}
		keys := make([]string, 0, v.Len())
		vals := map[string]reflect.Value{}
		it := v.MapRange()
		for it.Next() {
			k := it.Key().String()
			keys = append(keys, k)
			vals[k] = it.Value()
		}
		sort.Strings(keys)
		b.WriteByte('{')
		for i, k := range keys {
			if i > 0 {
				b.WriteByte(',')
			}
			b.WriteString(strconv.Quote(k))
			b.WriteByte(':')
			if !canonGo(b, vals[k]) {
				return false
			}
		}
		b.WriteByte('}')
	default:
		return false
	}
	return true
}

func validJSONNumber(s string) bool {
	if s == "" {
		return false
	}
	var x json.Number
	d := json.NewDecoder(strings.NewReader(s))
	d.UseNumber()
	var v any
	if err := d.Decode(&v); err != nil {
		return false
	}
	x, ok := v.(json.Number)
	return ok && string(x) == s && !d.More()
}

// CanonViaMarshal is the second, independent construction of R2: the Go value
// is marshalled by encoding/json and re-read with exact numbers.
func CanonViaMarshal(x any) (string, bool) {
	b, err := json.Marshal(x)
	if err != nil {
		return "", false
	}
	v, err := Parse(string(b))
	if err != nil {
		return "", false
	}
	return v.Canon(), true
}

// FromPlain converts a canonical encoding/json decoding (float64, string, bool,
// nil, []any, map[string]any, and pointers to them) into a Val.
func FromPlain(x any) (*Val, error) {
	switch x := x.(type) {
	case nil:
		return &Val{K: Null, canon: "null"}, nil
	case bool:
		v := &Val{K: Bool, B: x}
		v.Canon()
		return v, nil
	case float64:
		r := new(big.Rat)
		if r.SetFloat64(x) == nil {
			return nil, fmt.Errorf("not finite")
		}
		v := &Val{K: Num, N: r}
		v.Canon()
		return v, nil
	case string:
		v := &Val{K: Str, S: x}
		v.Canon()
		return v, nil
	case *any:
		return FromPlain(*x)
	case *map[string]any:
		return FromPlain(*x)
	case []any:
		v := &Val{K: Arr, A: make([]*Val, len(x))}
		for i, e := range x {
			c, err := FromPlain(e)
			if err != nil {
				return nil, err
			}
			v.A[i] = c
		}
		v.Canon()
		return v, nil
	case map[string]any:
		v := &Val{K: Obj, O: make(map[string]*Val, len(x))}
		for k, e := range x {
			c, err := FromPlain(e)
			if err != nil {
				return nil, err
			}
			v.O[k] = c
			v.Keys = append(v.Keys, k)
		}
		sort.Strings(v.Keys)
		v.Canon()
		return v, nil
	}
	// anything else (typed values inserted by the code under test): go through encoding/json
	b, err := json.Marshal(x)
	if err != nil {
		return nil, err
	}
	return Parse(string(b))
}
