package ref

import (
	"fmt"
	"strings"
)

// R3: RFC 3986 reference resolution (§5.2) and RFC 6901 pointers, written from
// the RFCs. net/url is used only in tests of this file's agreement with it.

// URI is the five-component split of RFC 3986 appendix B.
type URI struct {
	Scheme    string
	HasAuth   bool
	Authority string
	Path      string
	HasQuery  bool
	Query     string
	HasFrag   bool
	Fragment  string // raw (still percent-encoded)
}

// ParseURI splits s per appendix B: ^(([^:/?#]+):)?(//([^/?#]*))?([^?#]*)(\?([^#]*))?(#(.*))?
func ParseURI(s string) URI {
	var u URI
	rest := s
	if i := strings.IndexAny(rest, ":/?#"); i > 0 && rest[i] == ':' {
		u.Scheme = rest[:i]
		rest = rest[i+1:]
	}
	if strings.HasPrefix(rest, "//") {
		rest = rest[2:]
		j := strings.IndexAny(rest, "/?#")
		if j < 0 {
			j = len(rest)
		}
		u.HasAuth = true
		u.Authority = rest[:j]
		rest = rest[j:]
	}
	if i := strings.IndexByte(rest, '#'); i >= 0 {
		u.HasFrag = true
		u.Fragment = rest[i+1:]
		rest = rest[:i]
	}
	if i := strings.IndexByte(rest, '?'); i >= 0 {
		u.HasQuery = true
		u.Query = rest[i+1:]
		rest = rest[:i]
	}
	u.Path = rest
	return u
}

// String recomposes per §5.3.
func (u URI) String() string {
	var b strings.Builder
	if u.Scheme != "" {
		b.WriteString(u.Scheme)
		b.WriteByte(':')
	}
	if u.HasAuth {
		b.WriteString("//")
		b.WriteString(u.Authority)
	}
	b.WriteString(u.Path)
	if u.HasQuery {
		b.WriteByte('?')
		b.WriteString(u.Query)
	}
	if u.HasFrag {
		b.WriteByte('#')
		b.WriteString(u.Fragment)
	}
	return b.String()
}

// IsAbs reports whether the URI has a scheme.
func (u URI) IsAbs() bool { return u.Scheme != "" }

// NoFrag returns the URI without its fragment.
func (u URI) NoFrag() URI {
	u.HasFrag = false
	u.Fragment = ""
	return u
}

// ResolveURI implements §5.2.2 (strict).
func ResolveURI(base, r URI) URI {
	var t URI
	if r.Scheme != "" {
		t.Scheme = r.Scheme
		t.HasAuth, t.Authority = r.HasAuth, r.Authority
		t.Path = removeDotSegments(r.Path)
		t.HasQuery, t.Query = r.HasQuery, r.Query
	} else {
		if r.HasAuth {
			t.HasAuth, t.Authority = true, r.Authority
			t.Path = removeDotSegments(r.Path)
			t.HasQuery, t.Query = r.HasQuery, r.Query
		} else {
			if r.Path == "" {
				t.Path = base.Path
				if r.HasQuery {
					t.HasQuery, t.Query = true, r.Query
				} else {
					t.HasQuery, t.Query = base.HasQuery, base.Query
				}
			} else {
				if strings.HasPrefix(r.Path, "/") {
					t.Path = removeDotSegments(r.Path)
				} else {
					t.Path = removeDotSegments(mergePaths(base, r.Path))
				}
				t.HasQuery, t.Query = r.HasQuery, r.Query
			}
			t.HasAuth, t.Authority = base.HasAuth, base.Authority
		}
		t.Scheme = base.Scheme
	}
	t.HasFrag, t.Fragment = r.HasFrag, r.Fragment
	return t
}

func mergePaths(base URI, ref string) string {
	if base.HasAuth && base.Path == "" {
		return "/" + ref
	}
	if i := strings.LastIndexByte(base.Path, '/'); i >= 0 {
		return base.Path[:i+1] + ref
	}
	return ref
}

func removeDotSegments(in string) string {
	var out []string // output segments, each including its leading "/" if any
	for in != "" {
		switch {
		case strings.HasPrefix(in, "../"):
			in = in[3:]
		case strings.HasPrefix(in, "./"):
			in = in[2:]
		case strings.HasPrefix(in, "/./"):
			in = in[2:]
		case in == "/.":
			in = "/"
		case strings.HasPrefix(in, "/../"):
			in = in[3:]
			if len(out) > 0 {
				out = out[:len(out)-1]
			}
		case in == "/..":
			in = "/"
			if len(out) > 0 {
				out = out[:len(out)-1]
			}
		case in == "." || in == "..":
			in = ""
		default:
			start := 0
			if in[0] == '/' {
				start = 1
			}
			j := strings.IndexByte(in[start:], '/')
			if j < 0 {
				out = append(out, in)
				in = ""
			} else {
				out = append(out, in[:start+j])
				in = in[start+j:]
			}
		}
	}
	return strings.Join(out, "")
}

// PercentDecode decodes %XX sequences; ok is false on a malformed escape.
func PercentDecode(s string) (string, bool) {
	if !strings.Contains(s, "%") {
		return s, true
	}
	var b strings.Builder
	for i := 0; i < len(s); i++ {
		if s[i] != '%' {
			b.WriteByte(s[i])
			continue
		}
		if i+2 >= len(s) {
			return "", false
		}
		h, ok1 := unhex(s[i+1])
		l, ok2 := unhex(s[i+2])
		if !ok1 || !ok2 {
			return "", false
		}
		b.WriteByte(h<<4 | l)
		i += 2
	}
	return b.String(), true
}

func unhex(c byte) (byte, bool) {
	switch {
	case '0' <= c && c <= '9':
		return c - '0', true
	case 'a' <= c && c <= 'f':
		return c - 'a' + 10, true
	case 'A' <= c && c <= 'F':
		return c - 'A' + 10, true
	}
	return 0, false
}

// FragmentEncode percent-encodes a string for use as a URI fragment: everything
// outside RFC 3986 `fragment` = *( pchar / "/" / "?" ) is escaped.
func FragmentEncode(s string) string {
	const safe = "abcdefghijklmnopqrstuvwxyzABCDEFGHIJKLMNOPQRSTUVWXYZ0123456789-._~!$&'()*+,;=:@/?"
	var b strings.Builder
	for i := 0; i < len(s); i++ {
		c := s[i]
		if strings.IndexByte(safe, c) >= 0 {
			b.WriteByte(c)
		} else {
			fmt.Fprintf(&b, "%%%02X", c)
		}
	}
	return b.String()
}

// PointerEscape escapes one reference token per RFC 6901 §3.
func PointerEscape(tok string) string {
	tok = strings.ReplaceAll(tok, "~", "~0")
	return strings.ReplaceAll(tok, "/", "~1")
}

// ParsePointer splits an RFC 6901 pointer into unescaped tokens. ok is false if
// the pointer is syntactically invalid (no leading slash, or a '~' that is not
// followed by 0 or 1).
func ParsePointer(p string) (toks []string, ok bool) {
	if p == "" {
		return nil, true
	}
	if p[0] != '/' {
		return nil, false
	}
	for _, raw := range strings.Split(p[1:], "/") {
		var b strings.Builder
		for i := 0; i < len(raw); i++ {
			if raw[i] != '~' {
				b.WriteByte(raw[i])
				continue
			}
			if i+1 >= len(raw) {
				return nil, false
			}
			switch raw[i+1] {
			case '0':
				b.WriteByte('~')
			case '1':
				b.WriteByte('/')
			default:
				return nil, false
			}
			i++
		}
		toks = append(toks, b.String())
	}
	return toks, true
}

// ArrayIndex parses an RFC 6901 array index: "0" or a digit string without
// leading zero.
func ArrayIndex(tok string) (int, bool) {
	if tok == "" || (len(tok) > 1 && tok[0] == '0') || len(tok) > 9 {
		return 0, false
	}
	n := 0
	for i := 0; i < len(tok); i++ {
		if tok[i] < '0' || tok[i] > '9' {
			return 0, false
		}
		n = n*10 + int(tok[i]-'0')
	}
	return n, true
}
