package ref

import "testing"

func TestSuite(t *testing.T) {
	n, bad, err := CheckSuite("/repo")
	if err != nil {
		t.Fatal(err)
	}
	t.Logf("%d cases, %d mismatches", n, len(bad))
	for _, b := range bad {
		t.Error(b)
	}
}
