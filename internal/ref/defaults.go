package ref

import "fmt"

// R4: the laws of ApplyDefaults (C15), stated over (schema node, before, after).
//
// Lawful reports whether `after` can be the result of applying the defaults of
// node n to `before`: every value present before is untouched (objects may gain
// keys), nothing is inserted for a required name, and every inserted value is
// the declared default of that property (itself lawfully completed) or a
// container that holds at least one inserted default. inserted counts the
// defaults that were inserted below this point.
func Lawful(n *Node, before, after *Val) (inserted int, err error) {
	if before.K != Obj || n == nil || n.IsBool {
		if !Equal(before, after) {
			return 0, fmt.Errorf("a present value was changed: %s -> %s", before.JSON(), after.JSON())
		}
		return 0, nil
	}
	if after.K != Obj {
		return 0, fmt.Errorf("an object became %s", after.JSON())
	}
	for _, k := range before.Keys {
		if _, ok := after.O[k]; !ok {
			return 0, fmt.Errorf("key %q was removed", k)
		}
	}
	props := n.SubMap["properties"]
	req := map[string]bool{}
	if r, ok := n.KW["required"].([]any); ok {
		for _, x := range r {
			if s, ok := x.(string); ok {
				req[s] = true
			}
		}
	}
	for _, k := range after.Keys {
		sk := props[k]
		if b, present := before.O[k]; present {
			m, err := Lawful(sk, b, after.O[k])
			if err != nil {
				return 0, fmt.Errorf("/%s: %w", k, err)
			}
			inserted += m
			continue
		}
		// inserted
		if sk == nil || sk.IsBool {
			return 0, fmt.Errorf("key %q inserted although no property subschema declares it", k)
		}
		if req[k] {
			return 0, fmt.Errorf("required property %q was filled", k)
		}
		if d, has := sk.KW["default"]; has {
			dv, derr := FromAny(d)
			if derr != nil {
				return 0, derr
			}
			m, err := Lawful(sk, dv, after.O[k])
			if err != nil {
				return 0, fmt.Errorf("/%s: inserted value is not the declared default %s: %w", k, dv.JSON(), err)
			}
			if cerr := Completed(sk, after.O[k]); cerr != nil {
				return 0, fmt.Errorf("/%s: inserted default %s is not recursively completed: %w", k, after.O[k].JSON(), cerr)
			}
			inserted += 1 + m
			continue
		}
		empty := &Val{K: Obj, O: map[string]*Val{}}
		m, err := Lawful(sk, empty, after.O[k])
		if err != nil {
			return 0, fmt.Errorf("/%s: inserted container: %w", k, err)
		}
		if m == 0 {
			return 0, fmt.Errorf("/%s: inserted container %s holds no default", k, after.O[k].JSON())
		}
		inserted += m
	}
	return inserted, nil
}

// Completed reports whether v, a value ApplyDefaults inserted for node n, carries every nested
// default it is to be "recursively completed" with: each property of n that declares a default,
// is not required and whose subschema is reached through v.
func Completed(n *Node, v *Val) error {
	if n == nil || n.IsBool || v.K != Obj {
		return nil
	}
	req := map[string]bool{}
	if r, ok := n.KW["required"].([]any); ok {
		for _, x := range r {
			if s, ok := x.(string); ok {
				req[s] = true
			}
		}
	}
	for q, sq := range n.SubMap["properties"] {
		if sq == nil || sq.IsBool {
			continue
		}
		if cur, present := v.O[q]; present {
			if err := Completed(sq, cur); err != nil {
				return fmt.Errorf("/%s: %w", q, err)
			}
			continue
		}
		if _, has := sq.KW["default"]; has && !req[q] {
			return fmt.Errorf("nested default of %q is missing", q)
		}
	}
	return nil
}

// DefaultsValid reports whether every "default" in the document validates
// against the subschema that declares it (the ValidateDefaults clause).
func (u *Universe) DefaultsValid() (bool, error) {
	ok := true
	var ferr error
	forEachNode(u.Root.Root, func(n *Node) {
		if n.IsBool || ferr != nil {
			return
		}
		d, has := n.KW["default"]
		if !has {
			return
		}
		dv, err := FromAny(d)
		if err != nil {
			ferr = err
			return
		}
		r := u.ValidateAt(n, dv)
		if r.Err != nil || r.Loop || r.Undefined {
			ferr = fmt.Errorf("no opinion")
			return
		}
		if !r.Valid {
			ok = false
		}
	})
	return ok, ferr
}
