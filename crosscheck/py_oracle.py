#!/opt/veriftools/pyvenv/bin/python
"""Differential run of the reference validator R1 against python-jsonschema.

Reads the JSONL dump written by a check run with VERIF_DUMP_ORACLE=<file>
(one record per schema/universe: root, base, docs, draft, insts, r1) and
reports every (schema, instance) pair on which R1 and python-jsonschema
disagree.  This is an oracle-vs-oracle check: /repo is not involved.
"""
import json, sys, collections
from jsonschema import Draft202012Validator, Draft7Validator
from referencing import Registry, Resource
from referencing.jsonschema import DRAFT202012, DRAFT7

def main(path, limit=50):
    n = pairs = dis = skipped = 0
    shown = 0
    for line in open(path):
        rec = json.loads(line)
        n += 1
        spec = DRAFT202012 if rec["draft"] == "2020-12" else DRAFT7
        cls = Draft202012Validator if rec["draft"] == "2020-12" else Draft7Validator
        try:
            root = json.loads(rec["root"])
            res = []
            for uri, text in (rec.get("docs") or {}).items():
                res.append((uri, Resource(contents=json.loads(text), specification=spec)))
            rootres = Resource(contents=root, specification=spec)
            if rec.get("base"):
                res.append((rec["base"], rootres))
            reg = Registry().with_resources(res)
            if rec.get("base"):
                v = cls({"$ref": rec["base"]}, registry=reg)
            else:
                v = cls(root, registry=reg)
        except Exception as e:
            skipped += 1
            continue
        for text, r1 in zip(rec["insts"], rec["r1"]):
            if r1 is None:
                continue
            try:
                py = v.is_valid(json.loads(text))
            except Exception as e:
                py = "error:%s" % type(e).__name__
            pairs += 1
            if py != r1:
                dis += 1
                if shown < limit:
                    shown += 1
                    print("DISAGREE r1=%s py=%s\n  root=%s\n  docs=%s\n  inst=%s" % (r1, py, rec["root"], json.dumps(rec.get("docs")), text))
    print("records=%d pairs=%d disagreements=%d skipped_records=%d" % (n, pairs, dis, skipped))
    return 1 if dis else 0

if __name__ == "__main__":
    sys.exit(main(sys.argv[1], int(sys.argv[2]) if len(sys.argv) > 2 else 50))
