// Package c14 decides C14: Resolve, Validate and Marshal never modify their
// inputs and their results are functions of their inputs alone.
package c14

import (
	"crypto/sha256"
	"encoding/json"
	"fmt"
	"net/url"
	"os"
	"os/exec"
	"reflect"
	"sort"
	"strings"
	"sync/atomic"
	"unsafe"
	"verif/internal/envrun"

	"github.com/google/jsonschema-go/jsonschema"

	"verif/internal/drive"
	"verif/internal/ev"
	"verif/internal/gen"
	"verif/internal/par"
	"verif/internal/ref"
)

// Snapshot renders everything observable about a value: the pointer graph
// (addresses), every exported field, map contents, slice contents and lengths, and a shallow
// fingerprint (identity, size) of every unexported field of addressable structs.
func Snapshot(x any) string {
	var b strings.Builder
	snap(&b, reflect.ValueOf(x), map[uintptr]bool{})
	return b.String()
}

func snap(b *strings.Builder, v reflect.Value, seen map[uintptr]bool) {
	if !v.IsValid() {
		b.WriteString("<nil>")
		return
	}
	switch v.Kind() {
	case reflect.Pointer:
		if v.IsNil() {
			b.WriteString("nilptr")
			return
		}
		fmt.Fprintf(b, "&%x", v.Pointer())
		if seen[v.Pointer()] {
			return
		}
		seen[v.Pointer()] = true
		snap(b, v.Elem(), seen)
	case reflect.Interface:
		if v.IsNil() {
			b.WriteString("nilif")
			return
		}
		fmt.Fprintf(b, "(%s)", v.Elem().Type())
		snap(b, v.Elem(), seen)
	case reflect.Slice:
		if v.IsNil() {
			b.WriteString("nilslice")
			return
		}
		fmt.Fprintf(b, "[%x:%d", v.Pointer(), v.Len())
		for i := 0; i < v.Len(); i++ {
			b.WriteByte(' ')
			snap(b, v.Index(i), seen)
		}
		b.WriteByte(']')
	case reflect.Array:
		b.WriteByte('[')
		for i := 0; i < v.Len(); i++ {
			b.WriteByte(' ')
			snap(b, v.Index(i), seen)
		}
		b.WriteByte(']')
	case reflect.Map:
		if v.IsNil() {
			b.WriteString("nilmap")
			return
		}
		fmt.Fprintf(b, "map@%x{", v.Pointer())
		keys := v.MapKeys()
		sort.Slice(keys, func(i, j int) bool { return fmt.Sprint(keys[i]) < fmt.Sprint(keys[j]) })
		for _, k := range keys {
			fmt.Fprintf(b, "%v:", k)
			snap(b, v.MapIndex(k), seen)
			b.WriteByte(',')
		}
		b.WriteByte('}')
	case reflect.Struct:
		b.WriteByte('{')
		for i := 0; i < v.NumField(); i++ {
			if v.Type().Field(i).IsExported() {
				b.WriteString(v.Type().Field(i).Name)
				b.WriteByte('=')
				snap(b, v.Field(i), seen)
				b.WriteByte(';')
			} else if f := v.Field(i); f.CanAddr() {
				// an unexported field (a cache the library might keep inside the caller's value):
				// a shallow fingerprint - identity and size, not the contents
				f = reflect.NewAt(f.Type(), unsafe.Pointer(f.UnsafeAddr())).Elem()
				b.WriteString(v.Type().Field(i).Name)
				b.WriteByte('~')
				switch f.Kind() {
				case reflect.Pointer, reflect.Map, reflect.Slice, reflect.Chan, reflect.Func, reflect.UnsafePointer:
					if f.IsNil() {
						b.WriteString("nil")
					} else if f.Kind() == reflect.Pointer || f.Kind() == reflect.Func || f.Kind() == reflect.Chan || f.Kind() == reflect.UnsafePointer {
						fmt.Fprintf(b, "%x", f.Pointer())
					} else {
						fmt.Fprintf(b, "%x:%d", f.Pointer(), f.Len())
					}
				case reflect.Interface:
					fmt.Fprintf(b, "if:%v", f.IsNil())
				case reflect.Struct, reflect.Array:
					fmt.Fprintf(b, "zero:%v", f.IsZero())
				default:
					fmt.Fprintf(b, "%v", f.Interface())
				}
				b.WriteByte(';')
			}
		}
		b.WriteByte('}')
	default:
		fmt.Fprintf(b, "%v", v.Interface())
	}
}

func stride(thorough bool) int {
	if thorough {
		return 37
	}
	return 151
}

type subject struct {
	desc string
	mk   func() *jsonschema.Schema
}

func subjects(thorough bool) []subject {
	var out []subject
	stride := 151
	if thorough {
		stride = 37
	}
	for i, t := range gen.Schemas2020(false).List {
		if i%stride == 0 {
			t := t
			out = append(out, subject{"doc " + t, func() *jsonschema.Schema {
				var s jsonschema.Schema
				if json.Unmarshal([]byte(t), &s) != nil {
					return nil
				}
				return &s
			}})
		}
	}
	for i, t := range gen.Schemas07(false).List {
		if i%stride == 0 && strings.HasPrefix(t, "{") && t != "{}" {
			t := `{"$schema":"http://json-schema.org/draft-07/schema#",` + t[1:]
			out = append(out, subject{"doc " + t, func() *jsonschema.Schema {
				var s jsonschema.Schema
				if json.Unmarshal([]byte(t), &s) != nil {
					return nil
				}
				return &s
			}})
		}
	}
	// schemas whose maps have 2-3 entries at every map-ranging site, with unsorted lists
	for _, t := range MapRichDocs {
		t := t
		out = append(out, subject{"doc " + t, func() *jsonschema.Schema {
			var s jsonschema.Schema
			if json.Unmarshal([]byte(t), &s) != nil {
				return nil
			}
			return &s
		}})
	}
	for i, tr := range gen.Trees(false) {
		if i%(stride*2) == 0 {
			tr := tr
			_, d := tr()
			out = append(out, subject{"tree " + d, func() *jsonschema.Schema { s, _ := tr(); return s }})
		}
	}
	// dynamic-scope roots that reach one $dynamicRef through two resources (everything embedded)
	k := 0
	gen.DynTwoScope(func(u *gen.Universe) {
		k++
		// always: the roots where one path falls back to the lexical target of an off-chain
		// $dynamicRef while the other path overrides it (state memoised by one call would flip the other)
		m := u.Meta
		targeted := m["offchain"] == 1 && m["ka"] == 0 && m["kb"] != 0 && m["kf"] != 0 && m["kr"] != 0
		if len(u.Docs) == 0 && (targeted || k%(stride/4+1) == 0) {
			t := u.Root
			out = append(out, subject{"doc " + t, func() *jsonschema.Schema {
				var s jsonschema.Schema
				if json.Unmarshal([]byte(t), &s) != nil {
					return nil
				}
				return &s
			}})
		}
	})
	// Go literals with unsorted slices and PropertyOrder
	out = append(out, subject{"literal unsorted", func() *jsonschema.Schema {
		return &jsonschema.Schema{Type: "object", Required: []string{"z", "b", "a"}, Types: nil, Enum: []any{"z", 3.0, "a", nil},
			Properties:    map[string]*jsonschema.Schema{"z": {Types: []string{"string", "null", "integer"}}, "a": {Required: []string{"y", "x"}}, "b": {Default: json.RawMessage(`{"k":[3,1,2]}`)}},
			PropertyOrder: []string{"z", "nope", "a"}, DependentRequired: map[string][]string{"a": {"z", "b"}}, Examples: []any{[]any{3.0, 1.0}}, Extra: map[string]any{"x-z": []any{2.0, 1.0}, "x-a": 1.0}}
	}})
	return out
}

// MapRichDocs have several entries at every site where the package ranges over a map.
var MapRichDocs = []string{
	`{"properties":{"b":{"type":"integer"},"a":{"type":"string"},"c":true},"patternProperties":{"^a":{"minLength":1},"a$":{"maxLength":3},".":{}},"required":["c","a"],"dependentRequired":{"b":["a","c"],"a":["c"]},"dependentSchemas":{"a":{"required":["c"]},"b":{"properties":{"a":{"const":"x"}}}},"$defs":{"y":{"type":"integer"},"x":{"$ref":"#/$defs/y"},"z":false},"x-b":1,"x-a":[2,1],"additionalProperties":false}`,
	`{"$schema":"http://json-schema.org/draft-07/schema#","dependencies":{"b":["a","c"],"a":{"required":["c"]},"c":["a"],"d":{"maxProperties":3}},"definitions":{"y":{"type":"integer"},"x":{"$ref":"#/definitions/y"}},"properties":{"b":{"$ref":"#/definitions/x"},"a":{"type":"string"}},"patternProperties":{"^a":{"minLength":1},"a$":{"maxLength":3}}}`,
	`{"$schema":"https://json-schema.org/draft/2020-12/schema","$vocabulary":{"https://json-schema.org/draft/2020-12/vocab/core":true,"https://json-schema.org/draft/2020-12/vocab/applicator":true,"https://x/y":false},"properties":{"b":{"uniqueItems":true},"a":{"enum":[{"b":1,"a":2},{"a":2,"b":1}]}}}`,
	`{"uniqueItems":true,"items":{"properties":{"b":{"type":"integer"},"a":{"type":"integer"}},"unevaluatedProperties":false,"anyOf":[{"properties":{"c":true}},{"properties":{"d":true}}]}}`,
	`{"type":"object","properties":{"p":{"default":{"b":1,"a":2},"properties":{"a":{"default":1},"b":{"default":2},"c":{"default":{"z":1,"y":2}}}},"q":{"default":[3,1,2]}}}`,
	// annotations collected across several dependentSchemas / patternProperties entries, then read by unevaluatedProperties
	`{"dependentSchemas":{"a":{"properties":{"c":true}},"b":{"properties":{"ab":true}},"c":{"patternProperties":{"^q":true}}},"patternProperties":{"^a$":true,"^b$":{"type":["integer","string"]}},"unevaluatedProperties":false}`,
	// a schema-valued additionalProperties, propertyNames and patternProperties over multi-key instances with passing and failing keys
	`{"additionalProperties":{"type":"integer"},"propertyNames":{"maxLength":2,"pattern":"^[a-q]"},"patternProperties":{"^a":{"type":["string","integer"]},"b$":{"minimum":1}},"properties":{"c":{"type":"array"}}}`,
	// defaults only below properties that have none themselves (containers are created on the way), several per level
	`{"properties":{"r":{"properties":{"b":{"default":2},"a":{"default":1},"c":{"properties":{"z":{"default":[1]},"y":{"default":{"k":1}}}}}},"s":{"properties":{"a":{"properties":{"a":{"default":null}}}},"required":["zz"]},"t":{"properties":{"q":{"default":1}},"required":["q"]}}}`,
	// names that differ only in letter case (any order that is not total on them shows)
	`{"properties":{"id":{"type":"integer"},"ID":{"type":"string"},"Id":true,"iD":false,"a":{}},"required":["ID","id"],"x-A":1,"x-a":2,"$defs":{"Q":{},"q":{}}}`,
	// one malformed member among well-formed ones: refused under every visiting order
	`{"dependencies":{"b":["c"],"a":[1],"d":{"type":"integer"}},"properties":{"p":{"dependencies":{"x":5,"y":["z"]}}}}`,
	// keywords that the document's draft does not know stay in the Schema value, untouched by Validate
	`{"$schema":"http://json-schema.org/draft-07/schema#","contains":{"type":"integer"},"minContains":2,"maxContains":3,"unevaluatedItems":false,"items":{"contains":{"const":1},"minContains":0,"dependentRequired":{"a":["b"]},"prefixItems":[false]},"$defs":{"a":false},"properties":{"b":{"$anchor":"k","dependentSchemas":{"a":false}}}}`,
	// a long enum whose later members are the ones the instances match (members keep their places)
	`{"enum":[0,2,3,4,5,6,7,8,9,10,"a",1,null,[9,1],[3,1,2],{"p":9,"q":1}],"items":{"enum":[10,11,12,13,14,15,16,17,18,19,1,2,3,9,7]}}`,
	// recursive schemas: the same Schema is re-entered for a nested object while the outer object's
	// properties are still being walked (in whatever order the map yields them)
	`{"properties":{"name":{"type":"string"},"tag":{"type":"string"},"next":{"$ref":"#"}},"additionalProperties":false}`,
	`{"$defs":{"n":{"properties":{"name":true,"next":{"$ref":"#/$defs/n"},"tag":true},"patternProperties":{"^q":{"$ref":"#/$defs/n"}},"unevaluatedProperties":false}},"$ref":"#/$defs/n"}`,
	// unevaluatedItems after contains / prefixItems in several in-place branches
	`{"anyOf":[{"prefixItems":[true]},{"contains":{"const":9}},{"contains":{"const":2}}],"oneOf":[{"minItems":0},{"maxItems":0}],"unevaluatedItems":{"type":"integer","maximum":5}}`,
}

// InstanceTexts for C14 (each also in two non-canonical representations).
var InstanceTexts = []string{`["b","a","c"]`, `[3,1,2,1]`, `{"a":1,"b":1,"c":1,"ab":1}`, `{"a":1,"b":"s","q1":1,"zz":1}`, `[2,9,7]`, `[9,1]`, `[1,9]`, `{"p":9,"q":1}`, `{"q":2,"p":9}`, `[2,2]`, `{"a":"ab","b":1,"c":[1,2]}`, `{"c":1,"a":"x"}`, `[{"b":1,"a":2},{"a":2,"b":1}]`, `[{"a":1,"c":2},{"b":1,"d":2}]`, `1`, `"a"`, `{"b":"s","a":1,"ab":2}`, `[3,1,2]`, `{"p":{},"q":[9]}`, `null`, `{"name":"a","tag":"t","next":{"name":"b"}}`}

type result struct {
	marshal string
	resolve string // "ok" or "error"
	rvd     string
	verdict string
}

func Run(r *ev.Run) {
	if os.Getenv("VF_C14_DIGEST") != "" {
		digestMode(r)
		return
	}
	thorough := r.Tier == "thorough"
	subs := subjects(thorough)
	type inst struct {
		x    func() any
		desc string
	}
	var insts []inst
	for _, t := range InstanceTexts {
		v := ref.MustParse(t)
		insts = append(insts, inst{func() any { return v.Plain() }, t})
		rs := gen.Reps(v, 1, 1, gen.RepOpts{})
		if len(rs) > 3 {
			a, b := rs[len(rs)/3], rs[2*len(rs)/3]
			insts = append(insts, inst{func() any { return a.V }, a.Desc}, inst{func() any { return b.V }, b.Desc})
		}
	}
	for _, x := range typedInstances() {
		x := x
		insts = append(insts, inst{func() any { return x }, gen.Describe(x)})
	}
	depth := 3
	if thorough {
		depth = 4
	}
	r.Rule(fmt.Sprintf("subjects: every %d-th document of G-schema/2020 and G-schema/07 as unmarshalled Go values, map-rich documents (2-3 entries at every map-ranging site, unsorted lists), G-goschema trees and a Go literal. For each subject: the initial-state result of every operation {Marshal, CloneSchemas+Marshal, Resolve, Resolve(ValidateDefaults), Validate(i) for each of %d instances (10 values, each also in two non-canonical representations) on the oldest and on the newest Resolved}; then EVERY sequence of <=%d operations on one Schema value: each operation's result must equal its initial-state result, the deep snapshot (pointer graph, exported fields, map and slice contents) of the Schema tree must never change, and the instance snapshot must be unchanged by Validate. states = distinct (subject, snapshot, result) states reached (must be 1 per subject), transitions = operations executed. Finally the digest of the whole result table is recomputed in 3 fresh processes (fresh map seeds, fresh hash seeds) and must be identical. Non-trivial = every operation sequence", stride(thorough), len(insts), depth))
	r.Assume("error texts are not compared (they may name whichever failing keyword is met first)", "documents handed out by a Loader are inputs as well: every sequence of <=3 (4) Resolve calls of six roots (both drafts, two bases) through one caching loader (each optionally with a transient Loader fault on one of three URIs) must reproduce the fresh-loader results and leave the cached documents unchanged", "map-iteration orders and hash seeds are owned and enumerated in the instrumented build (C14 env part); the fresh-process digests are a confirmation on the uninstrumented binary")
	r.Set("subjects", len(subs))
	var states, transitions atomic.Int64
	table := make([]string, len(subs))
	par.For(len(subs), r.Expired, func(si int, j par.Journal) {
		sub := subs[si]
		key := sub.desc
		if r.OnlyKey != "" && !strings.HasPrefix(r.OnlyKey, key) {
			return
		}
		j.Begin(key)
		defer j.End()
		s0 := sub.mk()
		if s0 == nil {
			table[si] = sub.desc + "\x00not a schema"
			return
		}
		// initial-state results
		init := result{}
		if b, err := json.Marshal(s0); err == nil {
			init.marshal = string(b)
		} else {
			init.marshal = "error"
		}
		verd := func(rs *jsonschema.Resolved) string {
			var b strings.Builder
			for _, in := range insts {
				x := in.x()
				before := Snapshot(x)
				ok, p := drive.Verdict(rs, x)
				if p != "" {
					b.WriteByte('P')
				} else if ok {
					b.WriteByte('1')
				} else {
					b.WriteByte('0')
				}
				if after := Snapshot(x); after != before {
					r.Fail(key+" Validate("+in.desc+") [instance modified]", map[string]any{"class": "Validate modified the instance", "before": before, "after": after})
				}
			}
			return b.String()
		}
		if _, err := s0.Resolve(nil); err == nil {
			init.resolve = "ok"
			// reference verdicts: every instance on its own freshly resolved schema, so that
			// a leak from one Validate call into the next shows up in the histories below
			var b strings.Builder
			for _, in := range insts {
				rs1, err := s0.Resolve(nil)
				if err != nil {
					b.WriteByte('E')
					continue
				}
				x := in.x()
				before := Snapshot(x)
				ok, p := drive.Verdict(rs1, x)
				if after := Snapshot(x); after != before {
					r.Fail(key+" Validate("+in.desc+") [instance modified]", map[string]any{"class": "Validate modified the instance", "before": before, "after": after})
				}
				switch {
				case p != "":
					b.WriteByte('P')
				case ok:
					b.WriteByte('1')
				default:
					b.WriteByte('0')
				}
			}
			init.verdict = b.String()
		} else {
			init.resolve = "error"
		}
		if _, err := s0.Resolve(&jsonschema.ResolveOptions{ValidateDefaults: true}); err == nil {
			init.rvd = "ok"
		} else {
			init.rvd = "error"
		}
		table[si] = sub.desc + "\x00" + init.marshal + "\x00" + init.resolve + init.rvd + init.verdict
		// every operation sequence on ONE schema value
		ops := []string{"M", "C", "R", "RV", "Vold", "Vnew"}
		var seq []string
		var rec func(d int)
		rec = func(d int) {
			if d == depth {
				s := sub.mk()
				snap0 := Snapshot(s)
				var oldest, newest *jsonschema.Resolved
				for pos, op := range seq {
					transitions.Add(1)
					got := ""
					switch op {
					case "M":
						if b, err := json.Marshal(s); err == nil {
							got = string(b)
						} else {
							got = "error"
						}
						if got != init.marshal {
							r.Fail(key+" ops "+strings.Join(seq[:pos+1], ".")+" [Marshal]", map[string]any{"class": "Marshal result depends on history", "initial": init.marshal, "now": got})
						}
					case "C":
						c := s.CloneSchemas()
						if b, err := json.Marshal(c); err == nil {
							got = string(b)
						} else {
							got = "error"
						}
						if got != init.marshal {
							r.Fail(key+" ops "+strings.Join(seq[:pos+1], ".")+" [Clone]", map[string]any{"class": "Clone+Marshal result depends on history", "initial": init.marshal, "now": got})
						}
					case "R", "RV":
						var opts *jsonschema.ResolveOptions
						want := init.resolve
						if op == "RV" {
							opts = &jsonschema.ResolveOptions{ValidateDefaults: true}
							want = init.rvd
						}
						rs, err := s.Resolve(opts)
						got = "ok"
						if err != nil {
							got = "error"
						}
						if got != want {
							r.Fail(key+" ops "+strings.Join(seq[:pos+1], ".")+" [Resolve]", map[string]any{"class": "Resolve outcome depends on history", "initial": want, "now": got})
						}
						if err == nil {
							if oldest == nil {
								oldest = rs
							}
							newest = rs
						}
					case "Vold", "Vnew":
						rs := oldest
						if op == "Vnew" {
							rs = newest
						}
						if rs == nil {
							continue
						}
						got = verd(rs)
						if got != init.verdict {
							r.Fail(key+" ops "+strings.Join(seq[:pos+1], ".")+" [Validate]", map[string]any{"class": "verdicts depend on history", "initial": init.verdict, "now": got})
						}
					}
					if now := Snapshot(s); now != snap0 {
						r.Fail(key+" ops "+strings.Join(seq[:pos+1], ".")+" [schema modified]", map[string]any{"class": "the Schema tree was modified", "op": op, "diff": firstDiff(snap0, now)})
						snap0 = now
					}
				}
				r.Eval(1)
				return
			}
			for _, op := range ops {
				seq = append(seq, op)
				rec(d + 1)
				seq = seq[:len(seq)-1]
			}
		}
		rec(0)
		states.Add(1)
		r.NontrivialN(1)
		if si%97 == 0 {
			r.Sample(map[string]any{"subject": sub.desc, "initial": map[string]string{"marshal": init.marshal, "resolve": init.resolve, "resolve_validate_defaults": init.rvd, "verdicts": init.verdict}})
		}
	})
	lt := loaderHistories(r, thorough)
	transitions.Add(int64(lt))
	r.Set("states", states.Load())
	r.Set("transitions", transitions.Load())
	r.Set("traces_validated_against_impl", transitions.Load())
	// fresh processes
	complete := true
	for _, row := range table {
		if row == "" {
			complete = false // the internal deadline ended the run before every subject was reached
		}
	}
	if !complete {
		r.NotExhaustive("the result table is incomplete (internal deadline); the fresh-process digest comparison was skipped")
	}
	if r.OnlyKey == "" && complete {
		h := sha256.Sum256([]byte(strings.Join(table, "\n")))
		mine := fmt.Sprintf("%x", h)
		n := 3
		if thorough {
			n = 10
		}
		for k := 0; k < n; k++ {
			cmd := exec.Command(os.Args[0], os.Args[1:]...)
			cmd.Env = append(os.Environ(), "VF_CHILD=1", "VF_C14_DIGEST=1")
			out, err := cmd.Output()
			theirs := strings.TrimSpace(string(out))
			if i := strings.LastIndex(theirs, "DIGEST "); i >= 0 {
				theirs = strings.Fields(theirs[i+7:])[0]
			}
			if err != nil || theirs != mine {
				r.Fail(fmt.Sprintf("fresh process %d", k), map[string]any{"class": "result table differs between processes", "this_process": mine, "fresh_process": theirs, "error": fmt.Sprint(err)})
			}
		}
		r.Set("fresh_process_digests_compared", n)
		r.Set("result_table_digest", mine)
	}
	if r.OnlyKey == "" || true {
		envrun.Explore(r, "ENV", "c14env", "env", 16)
	}
}

// typedInstances are unsorted typed slices and maps (one object each, shared by every call of a
// history: an operation that reorders or edits them is seen by the snapshot and by later verdicts).
func typedInstances() []any {
	return []any{[]string{"b", "a", "c", "a"}, []string{"z", "y"}, gen.MySlice{"b", "a", 2.0, 1.0}, []int{3, 1, 2, 1}, []float64{2.5, 1.5, 0.5}, []gen.MyStr{"b", "a"},
		map[string][]string{"p": {"y", "x"}, "q": {"b", "a"}}, []any{[]string{"d", "c"}, []int{2, 1}}}
}

// loaderHistories: documents handed out by a caching Loader (the same *Schema for every request,
// as any caching loader does) are inputs too. Every sequence of Resolve calls of roots of
// different drafts and BaseURIs through ONE such loader must give each call the result it
// gives with a fresh loader, and must leave the cached documents unchanged.
func loaderHistories(r *ev.Run, thorough bool) int { return LoaderHistories(r, thorough, "") }

// LoaderHistories is shared with C02 and C03 (prefix distinguishes their case keys).
func LoaderHistories(r *ev.Run, thorough bool, prefix string) int {
	docs := map[string]string{
		"http://h/d.json":  `{"dependencies":{"a":["b"]},"items":[{"type":"string"}],"additionalItems":false,"properties":{"n":{"$ref":"e.json"}},"definitions":{"k":{"type":"integer"}}}`,
		"http://h/f.json":  `{"definitions":{"k":{"$id":"#k","type":"integer"}},"properties":{"a":{"$ref":"#/definitions/k"}}}`, // a fragment-only $id: an anchor in draft-07, an error in 2020-12
		"http://h/e.json":  `{"$id":"http://h/e.json","dependentRequired":{"a":["c"]},"prefixItems":[{"type":"integer"}],"$defs":{"k":{"type":"integer"}}}`,
		"http://h2/d.json": `{"type":"object"}`,
	}
	type root struct{ name, text, base string }
	roots := []root{
		{"draft-07 root", `{"$schema":"http://json-schema.org/draft-07/schema#","allOf":[{"$ref":"d.json"}]}`, "http://h/root.json"},
		{"2020-12 root", `{"$ref":"d.json"}`, "http://h/root.json"},
		{"2020-12 root, declared", `{"$schema":"https://json-schema.org/draft/2020-12/schema","properties":{"x":{"$ref":"http://h/d.json"}},"$ref":"e.json"}`, "http://h/root.json"},
		{"draft-07 root using f.json#k", `{"$schema":"http://json-schema.org/draft-07/schema#","properties":{"z":{"$ref":"f.json#k"}}}`, "http://h/root.json"},
		{"2020-12 root (declared) using f.json", `{"$schema":"https://json-schema.org/draft/2020-12/schema","properties":{"z":{"$ref":"f.json"}}}`, "http://h/root.json"},
		{"draft-07 root, other base", `{"$schema":"http://json-schema.org/draft-07/schema#","properties":{"x":{"$ref":"http://h/e.json"},"y":{"$ref":"d.json"}}}`, "http://h2/root.json"},
	}
	instTexts := []string{`{"z":1}`, `{"z":"s"}`, `{"z":{"a":"s"}}`, `{"a":1}`, `{"a":1,"b":1}`, `{"a":1,"c":1}`, `["s",1]`, `[1]`, `["s"]`, `{"n":{"a":1}}`, `{"x":{"a":1},"y":["s",2]}`, `{"x":[1,"s"],"a":1}`, `1`}
	var insts []any
	for _, t := range instTexts {
		insts = append(insts, ref.MustParse(t).Plain())
	}
	// an operation is one Resolve (+ validations) of a root, optionally with a transient Loader
	// fault on one URI (the loader fails for that URI during this call only, cached or not)
	type opT struct {
		root  int
		fault string
	}
	var ops []opT
	for i := range roots {
		ops = append(ops, opT{i, ""})
	}
	for i := range roots {
		for _, u := range []string{"http://h/d.json", "http://h/e.json", "http://h/f.json"} {
			ops = append(ops, opT{i, u})
		}
	}
	opName := func(o opT) string {
		if o.fault == "" {
			return roots[o.root].name
		}
		return roots[o.root].name + " [loader fault on " + o.fault + "]"
	}
	curFault := ""
	newLoader := func() (func(*url.URL) (*jsonschema.Schema, error), map[string]*jsonschema.Schema, map[string]string) {
		cache := map[string]*jsonschema.Schema{}
		snap0 := map[string]string{} // snapshot of each document as first handed out
		return func(u *url.URL) (*jsonschema.Schema, error) {
			k := u.String()
			if k == curFault {
				return nil, fmt.Errorf("transient fault loading %s", k)
			}
			if s, ok := cache[k]; ok {
				return s, nil
			}
			t, ok := docs[k]
			if !ok {
				return nil, fmt.Errorf("no document %s", k)
			}
			var s jsonschema.Schema
			if err := json.Unmarshal([]byte(t), &s); err != nil {
				return nil, err
			}
			cache[k] = &s
			snap0[k] = Snapshot(&s)
			return &s, nil
		}, cache, snap0
	}
	op := func(ro root, load func(*url.URL) (*jsonschema.Schema, error)) string {
		var s jsonschema.Schema
		if err := json.Unmarshal([]byte(ro.text), &s); err != nil {
			return "unmarshal error"
		}
		rs, err := s.Resolve(&jsonschema.ResolveOptions{BaseURI: ro.base, Loader: load})
		if err != nil {
			return "resolve error"
		}
		var b strings.Builder
		for _, in := range insts {
			if rs.Validate(in) == nil {
				b.WriteByte('1')
			} else {
				b.WriteByte('0')
			}
		}
		return b.String()
	}
	initial := make([]string, len(ops))
	for i, o := range ops {
		l, _, _ := newLoader()
		curFault = o.fault
		initial[i] = op(roots[o.root], l)
		curFault = ""
	}
	depth := 3
	if thorough {
		depth = 4
	}
	n := 0
	var seq []int
	var rec func()
	rec = func() {
		if len(seq) > 0 {
			load, cache, pristine := newLoader()
			names := make([]string, len(seq))
			for i, k := range seq {
				names[i] = opName(ops[k])
			}
			key := prefix + "loader history " + strings.Join(names, " ; ")
			if r.OnlyKey == "" || strings.HasPrefix(r.OnlyKey, key+" [") {
				for step, k := range seq {
					curFault = ops[k].fault
					got := op(roots[ops[k].root], load)
					curFault = ""
					n++
					if got != initial[k] {
						r.Fail(key+" [verdicts]", map[string]any{"class": "Resolve through a caching loader depends on earlier Resolve calls", "step": step, "root": roots[ops[k].root].text, "verdicts_with_fresh_loader": initial[k], "verdicts_in_this_history": got, "instances": instTexts})
						break
					}
					changed := false
					for u, d := range cache {
						if Snapshot(d) != pristine[u] {
							r.Fail(key+" [document]", map[string]any{"class": "a document handed out by the Loader was modified", "step": step, "document": u, "diff": firstDiff(pristine[u], Snapshot(d))})
							changed = true
						}
					}
					_ = changed
				}
				r.Eval(1)
				r.NontrivialN(1)
			}
		}
		if len(seq) == depth {
			return
		}
		for k := range ops {
			if ops[k].fault != "" && len(seq) >= 2 && !thorough {
				continue // quick: faults in the first two calls of a history only
			}
			if ops[k].fault != "" && len(seq) >= 3 {
				continue
			}
			seq = append(seq, k)
			rec()
			seq = seq[:len(seq)-1]
		}
	}
	rec()
	r.Set("loader_history_sequences_depth", depth)
	r.Set("loader_history_initial_results", initial)
	return n
}

// digestMode recomputes the initial-state result table and prints its digest.
func digestMode(r *ev.Run) {
	subs := subjects(r.Tier == "thorough")
	var insts []func() any
	for _, t := range InstanceTexts {
		v := ref.MustParse(t)
		insts = append(insts, func() any { return v.Plain() })
		rs := gen.Reps(v, 1, 1, gen.RepOpts{})
		if len(rs) > 3 {
			a, b := rs[len(rs)/3], rs[2*len(rs)/3]
			insts = append(insts, func() any { return a.V }, func() any { return b.V })
		}
	}
	for _, x := range typedInstances() {
		x := x
		insts = append(insts, func() any { return x })
	}
	table := make([]string, len(subs))
	par.For(len(subs), nil, func(si int, j par.Journal) {
		s0 := subs[si].mk()
		if s0 == nil {
			table[si] = subs[si].desc + "\x00not a schema"
			return
		}
		m, res, rvd, verdict := "error", "error", "error", ""
		if b, err := json.Marshal(s0); err == nil {
			m = string(b)
		}
		if _, err := s0.Resolve(nil); err == nil {
			res = "ok"
			var b strings.Builder
			for _, in := range insts {
				rs, err := s0.Resolve(nil)
				if err != nil {
					b.WriteByte('E')
					continue
				}
				ok, p := drive.Verdict(rs, in())
				if p != "" {
					b.WriteByte('P')
				} else if ok {
					b.WriteByte('1')
				} else {
					b.WriteByte('0')
				}
			}
			verdict = b.String()
		}
		if _, err := s0.Resolve(&jsonschema.ResolveOptions{ValidateDefaults: true}); err == nil {
			rvd = "ok"
		}
		table[si] = subs[si].desc + "\x00" + m + "\x00" + res + rvd + verdict
	})
	h := sha256.Sum256([]byte(strings.Join(table, "\n")))
	fmt.Printf("DIGEST %x\n", h)
	os.Exit(0)
}

func firstDiff(a, b string) string {
	i := 0
	for i < len(a) && i < len(b) && a[i] == b[i] {
		i++
	}
	lo := i - 60
	if lo < 0 {
		lo = 0
	}
	ha, hb := i+80, i+80
	if ha > len(a) {
		ha = len(a)
	}
	if hb > len(b) {
		hb = len(b)
	}
	return "before: …" + a[lo:ha] + "… after: …" + b[lo:hb] + "…"
}
