package c05

import (
	"encoding/json"
	"fmt"
	"strings"

	"verif/internal/ref"
)

// R5: the documented normalisations of a schema document: boolean forms,
// integral floats (numbers compare by value), omitted zero-valued keywords.
// Two documents are equivalent up to these iff their normal forms are equal.

var (
	subSingle = map[string]bool{"not": true, "if": true, "then": true, "else": true, "items": true, "additionalItems": true, "contains": true, "additionalProperties": true, "propertyNames": true, "unevaluatedItems": true, "unevaluatedProperties": true, "contentSchema": true}
	subArray  = map[string]bool{"allOf": true, "anyOf": true, "oneOf": true, "prefixItems": true, "items": true}
	subMap    = map[string]bool{"$defs": true, "definitions": true, "properties": true, "patternProperties": true, "dependentSchemas": true, "dependencies": true}
	// keywords whose empty value carries meaning and must survive
	keepEmpty = map[string]bool{"enum": true, "anyOf": true, "oneOf": true, "type": true, "properties": true, "items": true, "const": true, "default": true, "examples": false}
	dataKW    = map[string]bool{"const": true, "default": true, "enum": true, "examples": true}
)

// Normalise returns the canonical text of the normal form of a schema document.
func Normalise(text string) (string, error) {
	dec := json.NewDecoder(strings.NewReader(text))
	dec.UseNumber()
	var x any
	if err := dec.Decode(&x); err != nil {
		return "", err
	}
	n := normSchema(x)
	v, err := ref.FromAny(n)
	if err != nil {
		return "", err
	}
	return v.Canon(), nil
}

func isTrue(x any) bool {
	if b, ok := x.(bool); ok {
		return b
	}
	m, ok := x.(map[string]any)
	return ok && len(m) == 0
}

func normSchema(x any) any {
	m, ok := x.(map[string]any)
	if !ok {
		return x // boolean (or malformed: left alone)
	}
	out := map[string]any{}
	for k, v := range m {
		if dataKW[k] {
			if k == "enum" || k == "examples" {
				if v == nil {
					continue // null = absent
				}
			}
			if k == "examples" {
				if a, ok := v.([]any); ok && len(a) == 0 {
					continue
				}
			}
			out[k] = v
			continue
		}
		var nv any = v
		switch {
		case subSingle[k] && !isArr(v):
			if v == nil {
				continue
			}
			nv = normSchema(v)
		case subArray[k] && isArr(v):
			a := v.([]any)
			na := make([]any, len(a))
			for i, e := range a {
				na[i] = normSchema(e)
			}
			nv = na
		case subMap[k]:
			if mm, ok := v.(map[string]any); ok {
				nm := map[string]any{}
				for kk, e := range mm {
					if k == "dependencies" && isArr(e) {
						nm[kk] = e
					} else {
						nm[kk] = normSchema(e)
					}
				}
				nv = nm
			}
		}
		// zero-valued keywords are omitted
		switch t := nv.(type) {
		case nil:
			continue
		case string:
			if t == "" {
				continue
			}
		case bool:
			if !t && !subSingle[k] {
				continue
			}
		case []any:
			if len(t) == 0 && !keepEmpty[k] {
				continue
			}
		case map[string]any:
			if len(t) == 0 && !keepEmpty[k] && !subSingle[k] {
				continue
			}
		}
		out[k] = nv
	}
	if len(out) == 0 {
		return true
	}
	if len(out) == 1 {
		if n, ok := out["not"]; ok && isTrue(n) {
			return false
		}
	}
	return out
}

func isArr(v any) bool { _, ok := v.([]any); return ok }

var _ = fmt.Sprint
