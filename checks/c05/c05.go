// Package c05 decides C05: a schema survives a JSON round trip with its meaning intact.
package c05

import (
	"bytes"
	"encoding/json"
	"fmt"
	"reflect"
	"sort"
	"strings"
	"verif/checks/c19"

	"github.com/google/jsonschema-go/jsonschema"

	"verif/internal/drive"
	"verif/internal/ev"
	"verif/internal/gen"
	"verif/internal/par"
	"verif/internal/ref"
)

// independent field -> keyword table (from the specifications and the package documentation)
var keywordOf = map[string]string{
	"ID": "$id", "Schema": "$schema", "Ref": "$ref", "Comment": "$comment", "Defs": "$defs", "Definitions": "definitions",
	"Anchor": "$anchor", "DynamicAnchor": "$dynamicAnchor", "DynamicRef": "$dynamicRef", "Vocabulary": "$vocabulary",
	"Title": "title", "Description": "description", "Default": "default", "Deprecated": "deprecated", "ReadOnly": "readOnly", "WriteOnly": "writeOnly", "Examples": "examples",
	"Type": "type", "Types": "type", "Enum": "enum", "Const": "const", "MultipleOf": "multipleOf", "Minimum": "minimum", "Maximum": "maximum", "ExclusiveMinimum": "exclusiveMinimum", "ExclusiveMaximum": "exclusiveMaximum",
	"MinLength": "minLength", "MaxLength": "maxLength", "Pattern": "pattern",
	"PrefixItems": "prefixItems", "Items": "items", "ItemsArray": "items", "MinItems": "minItems", "MaxItems": "maxItems", "AdditionalItems": "additionalItems", "UniqueItems": "uniqueItems",
	"Contains": "contains", "MinContains": "minContains", "MaxContains": "maxContains", "UnevaluatedItems": "unevaluatedItems",
	"MinProperties": "minProperties", "MaxProperties": "maxProperties", "Required": "required", "DependentRequired": "dependentRequired", "Properties": "properties", "PatternProperties": "patternProperties",
	"AdditionalProperties": "additionalProperties", "PropertyNames": "propertyNames", "UnevaluatedProperties": "unevaluatedProperties",
	"AllOf": "allOf", "AnyOf": "anyOf", "OneOf": "oneOf", "Not": "not", "If": "if", "Then": "then", "Else": "else", "DependentSchemas": "dependentSchemas",
	"ContentEncoding": "contentEncoding", "ContentMediaType": "contentMediaType", "ContentSchema": "contentSchema", "Format": "format",
	"DependencySchemas": "dependencies", "DependencyStrings": "dependencies",
}

type fieldOpt struct {
	desc string
	set  func(s *jsonschema.Schema)
}

func ip(i int) *int         { return &i }
func fp(f float64) *float64 { return &f }
func ap(a any) *any         { return &a }

func sub(k int) *jsonschema.Schema {
	switch k {
	case 0:
		return &jsonschema.Schema{}
	case 1:
		return &jsonschema.Schema{Not: &jsonschema.Schema{}}
	case 2:
		return &jsonschema.Schema{Type: "integer"}
	}
	return &jsonschema.Schema{Required: []string{"a"}, Properties: map[string]*jsonschema.Schema{"a": {Type: "string"}}}
}

// options enumerates, per exported field, every way its Go type can be populated.
func options() map[string][]fieldOpt {
	o := map[string][]fieldOpt{}
	t := reflect.TypeOf(jsonschema.Schema{})
	for i := 0; i < t.NumField(); i++ {
		f := t.Field(i)
		name := f.Name
		add := func(desc string, v any) {
			// the value is re-created by a JSON-free deep copy on every use, so that
			// no two populated fields share a pointer, slice or map
			o[name] = append(o[name], fieldOpt{name + "=" + desc, func(s *jsonschema.Schema) {
				fv := reflect.ValueOf(s).Elem().FieldByName(name)
				val := deepCopy(reflect.ValueOf(v))
				if !val.IsValid() {
					fv.Set(reflect.Zero(fv.Type()))
				} else {
					fv.Set(val.Convert(fv.Type()))
				}
			}})
		}
		switch f.Type.String() {
		case "string":
			switch name {
			case "ID":
				add(`"http://h/x.json"`, "http://h/x.json")
			case "Schema":
				add("2020-12", "https://json-schema.org/draft/2020-12/schema")
				add("draft-07", "http://json-schema.org/draft-07/schema#")
			case "Ref", "DynamicRef":
				add(`"#/$defs/a"`, "#/$defs/a") // "#" would recurse without instance descent
			case "Type":
				add(`"integer"`, "integer")
				add(`"object"`, "object")
			case "Pattern":
				add(`"^a"`, "^a")
			default:
				add(`"x"`, "x")
			}
		case "bool":
			add("true", true)
		case "*int":
			add("&0", ip(0))
			add("&1", ip(1))
			add("&2", ip(2))
		case "*float64":
			add("&0", fp(0))
			add("&1.5", fp(1.5))
			add("&1", fp(1))
		case "*interface {}":
			add("->nil", ap(nil))
			add("->1", ap(1.0))
			add(`->"s"`, ap("s"))
			add("->[1]", ap([]any{1.0}))
			add("->{a:null}", ap(map[string]any{"a": nil}))
		case "json.RawMessage":
			add("null", json.RawMessage(`null`))
			add("1", json.RawMessage(`1`))
			add(`{"a":1}`, json.RawMessage(`{"a":1}`))
		case "[]interface {}":
			add("[]", []any{})
			add("[1]", []any{1.0})
			add(`[nil,"a"]`, []any{nil, "a"})
		case "[]string":
			if name == "Types" {
				add("[]", []string{})
				add(`["integer"]`, []string{"integer"})
				add(`["integer","null"]`, []string{"integer", "null"})
			} else {
				add("[]", []string{})
				add(`["a"]`, []string{"a"})
				add(`["a","b"]`, []string{"a", "b"})
				add(`["zz","a"]`, []string{"zz", "a"})
			}
		case "map[string]bool":
			add("{}", map[string]bool{})
			add("{x:true}", map[string]bool{"x": true})
		case "map[string][]string":
			add("{}", map[string][]string{})
			add(`{a:[b]}`, map[string][]string{"a": {"b"}})
			add(`{a:[],c:[a]}`, map[string][]string{"a": {}, "c": {"a"}})
		case "map[string]interface {}":
			add("{}", map[string]any{})
			add("{x:1}", map[string]any{"x": 1.0})
			add("{x-y:{a:[nil]},Type:string}", map[string]any{"x-y": map[string]any{"a": []any{nil}}, "Type": "string", "TITLE": 1.0})
		case "*jsonschema.Schema":
			for k := 0; k < 4; k++ {
				add(fmt.Sprintf("sub%d", k), sub(k))
			}
		case "[]*jsonschema.Schema":
			add("[]", []*jsonschema.Schema{})
			add("[{}]", []*jsonschema.Schema{sub(0)})
			add("[int,false]", []*jsonschema.Schema{sub(2), sub(1)})
		case "map[string]*jsonschema.Schema":
			key := "a"
			if name == "PatternProperties" {
				key = "^a"
			}
			add("{}", map[string]*jsonschema.Schema{})
			add("{a:{}}", map[string]*jsonschema.Schema{key: sub(0)})
			add("{a:int,b:false}", map[string]*jsonschema.Schema{key: sub(2), "b": sub(1)})
		}
	}
	return o
}

func exclusive(a, b string) bool {
	p := func(x, y string) bool { return (a == x && b == y) || (a == y && b == x) }
	return p("Type", "Types") || p("Items", "ItemsArray") || p("Defs", "Definitions") || p("DependencySchemas", "DependencyStrings")
}

// topKeys returns the set of keys of a JSON object text.
func topKeys(b []byte) map[string]bool {
	var m map[string]json.RawMessage
	if json.Unmarshal(b, &m) != nil {
		return nil
	}
	out := map[string]bool{}
	for k := range m {
		out[k] = true
	}
	return out
}

func nonZeroOmitEmpty(v reflect.Value) bool {
	switch v.Kind() {
	case reflect.String, reflect.Slice, reflect.Map, reflect.Array:
		return v.Len() > 0
	case reflect.Bool:
		return v.Bool()
	case reflect.Pointer, reflect.Interface:
		return !v.IsNil()
	}
	return !v.IsZero()
}

func hasPropertyOrder(s *jsonschema.Schema) bool { return s != nil && len(s.PropertyOrder) > 0 }

func verdicts(s *jsonschema.Schema, pool []drive.Inst) (string, string) {
	var rs *jsonschema.Resolved
	var err error
	if p := par.Call(func() { rs, err = s.Resolve(nil) }); p != "" {
		return "panic", p
	}
	if err != nil {
		return "resolve-error", ""
	}
	var b strings.Builder
	for _, in := range pool {
		ok, p := drive.Verdict(rs, in.Plain)
		if p != "" {
			return "panic", p
		}
		if ok {
			b.WriteByte('1')
		} else {
			b.WriteByte('0')
		}
	}
	return b.String(), ""
}

func Run(r *ev.Run) {
	thorough := r.Tier == "thorough"
	opts := options()
	var fields []string
	for f := range opts {
		fields = append(fields, f)
	}
	sort.Strings(fields)
	for _, f := range fields {
		if _, ok := keywordOf[f]; !ok && f != "Extra" && f != "PropertyOrder" {
			panic("c05: field " + f + " missing from the independent keyword table")
		}
	}
	pool := drive.MkPool(gen.Vals(`null`, `true`, `0`, `1`, `1.5`, `2`, `""`, `"a"`, `"ab"`, `"s"`, `[]`, `[1]`, `[1,"a"]`, `[1,1]`, `[1,2,3]`, `{}`, `{"a":1}`, `{"a":"x"}`, `{"a":1,"b":2}`, `{"b":1}`, `{"c":1}`, `{"a":null}`, `[null,"a"]`))
	type gcase struct {
		desc string
		mk   func() *jsonschema.Schema
	}
	var gcs []gcase
	for _, f := range fields {
		for _, o := range opts[f] {
			o := o
			gcs = append(gcs, gcase{o.desc, func() *jsonschema.Schema { s := &jsonschema.Schema{}; o.set(s); return s }})
			// nested: the populated schema one level down, under every subschema-bearing kind
			gcs = append(gcs, gcase{"Items{" + o.desc + "}", func() *jsonschema.Schema {
				c := &jsonschema.Schema{}
				o.set(c)
				return &jsonschema.Schema{Items: c}
			}}, gcase{"Properties{a:{" + o.desc + "}},AllOf[{" + o.desc + "}]", func() *jsonschema.Schema {
				c, d := &jsonschema.Schema{}, &jsonschema.Schema{}
				o.set(c)
				o.set(d)
				return &jsonschema.Schema{Properties: map[string]*jsonschema.Schema{"a": c}, AllOf: []*jsonschema.Schema{d}}
			}})
		}
	}
	for i, f := range fields {
		for _, g := range fields[i+1:] {
			if exclusive(f, g) {
				continue
			}
			for _, o := range opts[f] {
				for _, q := range opts[g] {
					o, q := o, q
					gcs = append(gcs, gcase{o.desc + " " + q.desc, func() *jsonschema.Schema { s := &jsonschema.Schema{}; o.set(s); q.set(s); return s }})
				}
			}
		}
	}
	// the dependency maps together (disjoint keys), and the draft-07-only fields under the draft-07 $schema
	const d7 = "http://json-schema.org/draft-07/schema#"
	gcs = append(gcs,
		gcase{"DependencySchemas={x:int,y:false} DependencyStrings={a:[b]}", func() *jsonschema.Schema {
			return &jsonschema.Schema{DependencySchemas: map[string]*jsonschema.Schema{"x": sub(2), "y": sub(1)}, DependencyStrings: map[string][]string{"a": {"b"}}}
		}},
		gcase{"Schema=draft-07 DependencySchemas={a:{required:[c]}} DependencyStrings={b:[a],c:[]}", func() *jsonschema.Schema {
			return &jsonschema.Schema{Schema: d7, DependencySchemas: map[string]*jsonschema.Schema{"a": {Required: []string{"c"}}}, DependencyStrings: map[string][]string{"b": {"a"}, "c": {}}}
		}},
		gcase{"Schema=draft-07 ItemsArray=[int,false] AdditionalItems=int", func() *jsonschema.Schema {
			return &jsonschema.Schema{Schema: d7, ItemsArray: []*jsonschema.Schema{sub(2), sub(1)}, AdditionalItems: sub(2)}
		}},
		gcase{"Schema=draft-07 ItemsArray=[{}] AdditionalItems=false", func() *jsonschema.Schema {
			return &jsonschema.Schema{Schema: d7, ItemsArray: []*jsonschema.Schema{sub(0)}, AdditionalItems: sub(1)}
		}},
		gcase{"Schema=draft-07 ItemsArray=[] AdditionalItems=false", func() *jsonschema.Schema {
			return &jsonschema.Schema{Schema: d7, ItemsArray: []*jsonschema.Schema{}, AdditionalItems: sub(1)}
		}},
		gcase{"Schema=draft-07 Definitions={a:int} AllOf=[{Ref:#/definitions/a}]", func() *jsonschema.Schema {
			return &jsonschema.Schema{Schema: d7, Definitions: map[string]*jsonschema.Schema{"a": sub(2)}, AllOf: []*jsonschema.Schema{{Ref: "#/definitions/a"}}}
		}},
		gcase{"Schema=draft-07 Ref=#/definitions/a Definitions={a:int} MaxProperties=&0", func() *jsonschema.Schema {
			return &jsonschema.Schema{Schema: d7, Ref: "#/definitions/a", Definitions: map[string]*jsonschema.Schema{"a": {Type: "object"}}, MaxProperties: ip(0)}
		}},
		gcase{"Schema=draft-07 Items={DependencyStrings={a:[b]},DependencySchemas={c:false}}", func() *jsonschema.Schema {
			return &jsonschema.Schema{Schema: d7, Items: &jsonschema.Schema{DependencyStrings: map[string][]string{"a": {"b"}}, DependencySchemas: map[string]*jsonschema.Schema{"c": sub(1)}}}
		}},
	)
	r.Rule("Go side: every exported Schema field populated in every way its Go type allows (empty / one / two element containers, pointers to zero and non-zero, *any to nil, RawMessage null, subschemas {} / false-form / nested), alone, nested one level down under items/properties/allOf, and every pair of fields (exclusivity rules respected): Marshal succeeds, Unmarshal of the result succeeds, re-Marshal is byte-identical (JSON-equal with PropertyOrder), every non-zero keyword and every Extra key is a key of the output (independent field->keyword table), original and round-tripped schema agree on Resolve outcome and on every pool instance. " +
		"JSON side: every document of G-schema/2020 and G-schema/07 (quick: a stride) plus normalisation oddities: Unmarshal, Marshal, the result is JSON-equal to the input up to the documented normalisations and gives the same verdicts (also equal to R1). Non-trivial = every case (distinct by construction)")
	r.Assume("documented Marshal errors (Extra key equal to a keyword, exclusivity violations) are not round-trip failures", "the check does not demand that empty containers be emitted; it demands that dropping them does not change the meaning")
	r.Set("go_values", len(gcs))
	par.For(len(gcs), r.Expired, func(i int, j par.Journal) {
		g := gcs[i]
		key := "Schema{" + g.desc + "}"
		if r.OnlyKey != "" && !strings.HasPrefix(r.OnlyKey, key) {
			return
		}
		j.Begin(key)
		defer j.End()
		s := g.mk()
		r.Eval(1)
		r.NontrivialN(1)
		fail := func(class string, m map[string]any) {
			m["class"] = class
			r.Fail(key+" ["+class+"]", m)
		}
		var b1 []byte
		var err error
		if p := par.Call(func() { b1, err = json.Marshal(s) }); p != "" {
			fail("panic", map[string]any{"panic": p})
			return
		}
		if err != nil {
			fail("Marshal error", map[string]any{"error": err.Error()})
			return
		}
		var s2 jsonschema.Schema
		if err := json.Unmarshal(b1, &s2); err != nil {
			fail("Unmarshal of Marshal output fails", map[string]any{"json": string(b1), "error": err.Error()})
			return
		}
		b2, err := json.Marshal(&s2)
		if err != nil {
			fail("re-Marshal error", map[string]any{"json": string(b1), "error": err.Error()})
			return
		}
		if !bytes.Equal(b1, b2) {
			fail("re-Marshal differs", map[string]any{"first": string(b1), "second": string(b2)})
		}
		// O4: keywords kept
		if keys := topKeys(b1); keys != nil {
			v := reflect.ValueOf(s).Elem()
			for fi := 0; fi < v.NumField(); fi++ {
				name := v.Type().Field(fi).Name
				kw, ok := keywordOf[name]
				if ok && nonZeroOmitEmpty(v.Field(fi)) && !keys[kw] {
					fail("keyword dropped", map[string]any{"keyword": kw, "json": string(b1)})
				}
			}
			for k := range s.Extra {
				if !keys[k] {
					fail("Extra key dropped", map[string]any{"key": k, "json": string(b1)})
				}
			}
		}
		// O4': what Marshal writes for a child inside its parent is what it writes for the child alone
		var top map[string]json.RawMessage
		if json.Unmarshal(b1, &top) == nil {
			cmp := func(where string, child *jsonschema.Schema, got json.RawMessage) {
				if child == nil {
					return
				}
				cb, cerr := json.Marshal(child)
				if cerr != nil {
					return
				}
				a, e1 := ref.Parse(string(cb))
				b, e2 := ref.Parse(string(got))
				if e1 != nil || e2 != nil || a.Canon() != b.Canon() {
					fail("child marshals differently inside its parent", map[string]any{"where": where, "alone": string(cb), "inside": string(got)})
				}
			}
			if s.Items != nil {
				cmp("items", s.Items, top["items"])
			}
			var props map[string]json.RawMessage
			if json.Unmarshal(top["properties"], &props) == nil {
				for k, c := range s.Properties {
					cmp("properties/"+k, c, props[k])
				}
			}
			var all []json.RawMessage
			if json.Unmarshal(top["allOf"], &all) == nil && len(all) == len(s.AllOf) {
				for k, c := range s.AllOf {
					cmp(fmt.Sprintf("allOf/%d", k), c, all[k])
				}
			}
		}
		// O5: same meaning
		v1, p1 := verdicts(s, pool)
		v2, p2 := verdicts(&s2, pool)
		if p1 != "" || p2 != "" {
			fail("panic", map[string]any{"panic": p1 + p2})
		} else if v1 == "resolve-error" {
			r.Either() // the original is not a schema the package validates with: it has no accept/reject behaviour to preserve
		} else if v1 != v2 {
			fail("meaning changed by the round trip", map[string]any{"json": string(b1), "original_verdicts": v1, "roundtrip_verdicts": v2})
		}
		if i%4999 == 0 {
			r.Sample(map[string]any{"go_value": key, "json": string(b1)})
		}
	})

	// JSON side
	var docs []string
	stride := 6
	if thorough {
		stride = 1
	}
	for i, t := range gen.Schemas2020(false).List {
		if i%stride == 0 {
			docs = append(docs, t)
		}
	}
	for i, t := range gen.Schemas07(false).List {
		if i%stride == 0 && strings.HasPrefix(t, "{") && t != "{}" {
			docs = append(docs, `{"$schema":"http://json-schema.org/draft-07/schema#",`+t[1:])
		}
	}
	docs = append(docs, oddities()...)
	r.Set("documents", len(docs))
	par.For(len(docs), r.Expired, func(i int, j par.Journal) {
		d := docs[i]
		key := "doc " + d
		if r.OnlyKey != "" && !strings.HasPrefix(r.OnlyKey, key) {
			return
		}
		j.Begin(key)
		defer j.End()
		// recursion that does not descend into the instance is outside the domain (and
		// would overflow the stack): ask the oracle first
		if u, err := ref.NewUniverse(d, "", nil, nil); err == nil && u.Closure() == nil {
			for _, in := range pool {
				if u.Validate(in.Val).Loop {
					r.Add("skipped_non_descending_recursion", 1)
					return
				}
			}
		}
		var s jsonschema.Schema
		if err := json.Unmarshal([]byte(d), &s); err != nil {
			// one malformed member next to well-formed ones: whether the document is refused
			// must not depend on the order in which the members are visited
			if strings.Contains(d, `"zmal`) || strings.Contains(d, `"amal`) {
				for k := 0; k < 60; k++ {
					var t jsonschema.Schema
					if json.Unmarshal([]byte(d), &t) == nil {
						b, _ := json.Marshal(&t)
						r.Fail(key+" [sometimes accepted]", map[string]any{"class": "a malformed document is refused or accepted depending on map iteration order", "first_error": err.Error(), "accepted_as": string(b)})
						break
					}
				}
			}
			return // not a document Unmarshal accepts
		}
		if strings.Contains(d, `"zmal`) || strings.Contains(d, `"amal`) {
			for k := 0; k < 60; k++ {
				var t jsonschema.Schema
				if err := json.Unmarshal([]byte(d), &t); err != nil {
					r.Fail(key+" [sometimes accepted]", map[string]any{"class": "a malformed document is refused or accepted depending on map iteration order", "later_error": err.Error()})
					break
				}
			}
		}
		r.Eval(1)
		r.NontrivialN(1)
		b, err := json.Marshal(&s)
		if err != nil {
			r.Fail(key+" [Marshal error]", map[string]any{"class": "Marshal error", "error": err.Error()})
			return
		}
		n1, e1 := Normalise(d)
		n2, e2 := Normalise(string(b))
		if e1 != nil || e2 != nil {
			r.Add("normaliser_no_opinion", 1)
		} else if n1 != n2 {
			r.Fail(key+" [document changed]", map[string]any{"class": "document changed beyond the documented normalisations", "input": d, "output": string(b), "normalised_input": n1, "normalised_output": n2})
		}
		var s2 jsonschema.Schema
		if err := json.Unmarshal(b, &s2); err != nil {
			r.Fail(key+" [output not accepted]", map[string]any{"class": "Unmarshal of Marshal output fails", "output": string(b), "error": err.Error()})
			return
		}
		v1, _ := verdicts(&s, pool)
		v2, _ := verdicts(&s2, pool)
		if v1 == "resolve-error" {
			r.Either()
		} else if v1 != v2 {
			r.Fail(key+" [meaning]", map[string]any{"class": "meaning changed by the round trip", "input": d, "output": string(b), "input_verdicts": v1, "output_verdicts": v2})
		}
		// R1 on the input document
		if u, err := ref.NewUniverse(d, "", nil, nil); err == nil && u.Closure() == nil && v2 != "resolve-error" && v2 != "panic" {
			for k, in := range pool {
				w := u.Validate(in.Val)
				if w.Undefined || w.Loop || w.Err != nil {
					continue
				}
				if (v2[k] == '1') != w.Valid {
					r.Fail(key+" [meaning vs spec]", map[string]any{"class": "round-tripped schema disagrees with the specification on the input document", "instance": in.Text, "spec_valid": w.Valid, "output": string(b)})
					break
				}
			}
		}
	})
	// "keeps every keyword ... marshals again to the same JSON value" also after other Marshal
	// calls, including calls that failed half-way
	c19.MarshalHistories(r, "C05 ")
}

func oddities() []string {
	var out []string
	for _, slot := range []string{`{"items":%s}`, `{"not":%s}`, `{"properties":{"a":%s}}`, `{"allOf":[%s]}`, `{"additionalProperties":%s}`, `{"$defs":{"d":%s}}`, `{"if":%s,"then":%s,"else":%s}`, `{"prefixItems":[%s,%s]}`, `{"contains":%s}`, `{"propertyNames":%s}`, `{"unevaluatedProperties":%s}`, `{"dependentSchemas":{"a":%s}}`, `{"patternProperties":{"^a":%s}}`} {
		for _, v := range []string{`true`, `false`, `{}`, `{"not":{}}`, `{"not":true}`, `{"not":{"not":{}}}`, `{"title":""}`, `{"not":false}`} {
			out = append(out, strings.ReplaceAll(slot, "%s", v))
		}
	}
	for _, k := range []string{"multipleOf", "minimum", "maximum", "exclusiveMinimum", "exclusiveMaximum", "minLength", "maxLength", "minItems", "maxItems", "minContains", "maxContains", "minProperties", "maxProperties"} {
		for _, v := range []string{`1.0`, `0`, `0.0`, `2`, `1e0`, `10e-1`, `-0`} {
			out = append(out, fmt.Sprintf(`{"contains":true,%q:%s}`, k, v))
		}
	}
	for _, kv := range []string{`"title":""`, `"enum":null`, `"enum":[]`, `"uniqueItems":false`, `"deprecated":false`, `"required":[]`, `"required":null`, `"const":null`, `"default":null`, `"examples":[]`, `"allOf":[]`, `"anyOf":[]`, `"oneOf":[]`, `"prefixItems":[]`,
		`"$defs":{}`, `"properties":{}`, `"patternProperties":{}`, `"dependentRequired":{}`, `"dependentSchemas":{}`, `"type":[]`, `"type":["integer"]`, `"items":[]`, `"dependencies":{}`, `"dependencies":{"a":[]}`, `"dependencies":{"a":[],"b":{}}`, `"dependencies":{"a":["b"],"b":true,"c":false}`,
		`"$vocabulary":{}`, `"$comment":""`, `"format":""`, `"pattern":""`, `"$id":""`, `"$ref":""`, `"minLength":null`, `"not":null`, `"type":null`, `"const":[null]`, `"default":{"a":null}`, `"examples":[null]`, `"enum":[null,[],{}]`} {
		out = append(out, `{`+kv+`}`, `{"type":"object",`+kv+`}`, `{"properties":{"a":{`+kv+`}},"required":["a"]}`)
	}
	for _, v := range []string{`1`, `"s"`, `null`, `true`, `[1,{"a":null}]`, `{"a":{"b":[]}}`, `1.0`, `1e2`} {
		out = append(out, `{"x":`+v+`}`, `{"type":"integer","x-y":`+v+`,"Type":`+v+`}`, `{"unknown":`+v+`,"properties":{"a":{"unknown2":`+v+`}}}`)
	}
	// case variants of camelCase keywords, alone in their object (no other unknown key) and next to the real keyword
	for _, kv := range []string{`"minlength":3`, `"MinLength":3`, `"MINLENGTH":1`, `"additionalproperties":false`, `"AdditionalProperties":false`, `"UniqueItems":true`, `"uniqueitems":true`,
		`"exclusiveminimum":1`, `"ExclusiveMaximum":0`, `"$DynamicRef":"#nope"`, `"$dynamicref":"#nope"`, `"minitems":5`, `"maxProperties ":0`, `"propertynames":false`, `"prefixitems":[false]`, `"dependentrequired":{"a":["zz"]}`, `"readonly":"yes"`, `"contentschema":1`, `"multipleof":7`, `"patternproperties":{"(":1}`} {
		out = append(out, `{`+kv+`}`, `{"type":"string",`+kv+`}`, `{"items":{`+kv+`}}`)
	}
	// one malformed member ("amal" / "zmal": sorts first / last) next to well-formed members of the same map
	for _, nm := range []string{"amal", "zmal"} {
		for _, w := range []string{
			`{"dependencies":{"%s":[1],"b":["c"],"d":{"type":"integer"}}}`, `{"dependencies":{"%s":5,"b":["c"]}}`, `{"dependencies":{"%s":{"type":7},"ok":{"type":"integer"},"s":["a"]}}`, `{"dependencies":{"%s":"x","b":[],"c":true}}`,
			`{"$schema":"http://json-schema.org/draft-07/schema#","dependencies":{"%s":[1],"b":["c"]}}`,
			`{"properties":{"%s":1,"b":{},"c":true}}`, `{"$defs":{"%s":"x","b":true}}`, `{"patternProperties":{"%s":[],"b":{}}}`, `{"dependentRequired":{"%s":[1],"b":["c"]}}`, `{"dependentRequired":{"%s":"x","b":[]}}`,
			`{"dependentSchemas":{"%s":3,"b":{}}}`, `{"definitions":{"%s":null,"b":{"type":[]}}}`, `{"properties":{"p":{"dependencies":{"%s":[{}],"b":["c"]}}}}`, `{"$vocabulary":{"%s":1,"b":true}}`,
		} {
			out = append(out, fmt.Sprintf(w, nm))
		}
	}
	// property names with backslashes and quotes; integer keywords written as large integral floats
	out = append(out, `{"properties":{"dir\\name":{"type":"integer"},"C:\\temp":{},"back\\\\slash":false,"q\"uote":true,"tab\tname":{}},"required":["dir\\name"]}`,
		`{"patternProperties":{"^a\\.b$":{"type":"integer"}},"dependentRequired":{"x\\y":["dir\\name"]}}`)
	for _, k := range []string{"maxLength", "minLength", "minItems", "maxItems", "minContains", "maxContains", "minProperties", "maxProperties"} {
		for _, v := range []string{`16777217.0`, `100000001.0`, `2147483647.0`, `16777217`, `1e3`, `33554433.0`} {
			out = append(out, fmt.Sprintf(`{"contains":true,%q:%s}`, k, v))
		}
	}
	// numbers that float64 cannot hold exactly, or at all
	for _, n := range []string{`9007199254740993`, `12345678901234567890`, `0.1000000000000000000001`, `-9007199254740993`, `1e400`, `-1e400`, `1e-400`} {
		for _, slot := range []string{`{"const":%s}`, `{"enum":[%s]}`, `{"examples":[%s]}`, `{"default":%s}`, `{"x":%s}`, `{"x":[{"a":%s}]}`, `{"minimum":%s}`, `{"multipleOf":%s}`, `{"properties":{"a":{"const":%s,"x":%s}}}`,
			`{"default":%s,"x-note":"hello"}`, `{"properties":{"a":{"default":%s}},"x-note":1}`, `{"items":{"default":[%s],"X":null},"Title":1}`} {
			out = append(out, strings.ReplaceAll(slot, "%s", n))
		}
	}
	// $defs next to definitions (both are legal members of a 2020-12 document)
	out = append(out, `{"$defs":{"a":true},"definitions":{"b":true}}`, `{"$defs":{},"definitions":{}}`, `{"properties":{"p":{"$defs":{"a":{"type":"integer"}},"definitions":{"a":{"type":"string"}},"$ref":"#/properties/p/$defs/a"}}}`,
		`{"$schema":"http://json-schema.org/draft-07/schema#","definitions":{"a":{"type":"integer"}},"$defs":{"b":false}}`)
	out = append(out, `{"items":[{"type":"integer"},true,false]}`, `{"items":[{}]}`, `{"$schema":"http://json-schema.org/draft-07/schema#","items":[{"type":"integer"}],"additionalItems":false}`,
		`{"$schema":"http://json-schema.org/draft-07/schema#","dependencies":{"a":["b"],"c":{"required":["d"]}}}`)
	return out
}

// deepCopy copies pointers, slices, maps and Schema structs.
func deepCopy(v reflect.Value) reflect.Value {
	if !v.IsValid() {
		return v
	}
	switch v.Kind() {
	case reflect.Pointer:
		if v.IsNil() {
			return v
		}
		p := reflect.New(v.Type().Elem())
		p.Elem().Set(deepCopy(v.Elem()))
		return p
	case reflect.Interface:
		if v.IsNil() {
			return v
		}
		n := reflect.New(v.Type()).Elem()
		n.Set(deepCopy(v.Elem()))
		return n
	case reflect.Slice:
		if v.IsNil() {
			return v
		}
		s := reflect.MakeSlice(v.Type(), v.Len(), v.Len())
		for i := 0; i < v.Len(); i++ {
			s.Index(i).Set(deepCopy(v.Index(i)))
		}
		return s
	case reflect.Map:
		if v.IsNil() {
			return v
		}
		m := reflect.MakeMap(v.Type())
		it := v.MapRange()
		for it.Next() {
			m.SetMapIndex(it.Key(), deepCopy(it.Value()))
		}
		return m
	case reflect.Struct:
		n := reflect.New(v.Type()).Elem()
		for i := 0; i < v.NumField(); i++ {
			if n.Field(i).CanSet() {
				n.Field(i).Set(deepCopy(v.Field(i)))
			}
		}
		return n
	}
	return v
}
