// Package c02 decides C02: draft-07 documents get draft-07 semantics, remote
// documents without $schema inherit the root's draft, unsupported $schema
// values are refused by Validate.
package c02

import (
	"fmt"
	"os"
	"sort"
	"strings"

	"verif/checks/c01"
	"verif/checks/c14"
	"verif/internal/drive"
	"verif/internal/ev"
	"verif/internal/gen"
	"verif/internal/par"
	"verif/internal/ref"
)

const (
	s07http  = `"$schema":"http://json-schema.org/draft-07/schema#"`
	s07https = `"$schema":"https://json-schema.org/draft-07/schema#"`
	s2020    = `"$schema":"https://json-schema.org/draft/2020-12/schema"`
)

// with inserts a $schema member at the front of a schema object text.
func with(member, obj string) string {
	if member == "" {
		return obj
	}
	if obj == "{}" {
		return "{" + member + "}"
	}
	return "{" + member + "," + obj[1:]
}

// axisPool: schemas that are well-defined under both drafts but mean different
// things (dependencies is unknown to 2020-12; siblings of $ref apply only under 2020-12).
func axisPool() []string {
	var out []string
	for _, x := range []string{`true`, `false`, `{"type":"integer"}`, `{"required":["b"]}`, `{"maxProperties":1}`} {
		out = append(out, `{"dependencies":{"a":`+x+`}}`)
		out = append(out, `{"dependencies":{"a":`+x+`,"b":["c"]}}`)
	}
	out = append(out, `{"dependencies":{"a":["b"]}}`, `{"dependencies":{"a":["b","c"],"b":["a"]}}`, `{"dependencies":{"a":[]}}`)
	for _, sib := range []string{`"maximum":0`, `"type":"string"`, `"not":{}`, `"minimum":5`, `"const":1`} {
		out = append(out, `{"properties":{"a":{"type":"integer"},"b":{"$ref":"#/properties/a",`+sib+`}}}`)
		out = append(out, `{"properties":{"a":{"type":"integer"}},"additionalProperties":{"$ref":"#/properties/a",`+sib+`}}`)
		out = append(out, `{"properties":{"a":{"type":"integer"}},"items":{"$ref":"#/properties/a",`+sib+`}}`)
	}
	for _, a := range gen.Atoms07() {
		if a.K == "dependencies" {
			continue
		}
		out = append(out, gen.Obj(a))
	}
	out = append(out, `{}`, `{"additionalItems":false}`, `{"items":{"type":"integer"},"additionalItems":false}`)
	return out
}

type remoteCase struct {
	root, base string
	docs       map[string]string
	key        string
}

func remoteCases() []remoteCase {
	var out []remoteCase
	// remote bodies that need a draft-07 reading
	bodies := []string{
		`{"allOf":[{"$ref":"#k"}],"definitions":{"k":{"$id":"#k","type":"integer"}}}`,
		`{"allOf":[{"$id":"http://other/x.json","$ref":"#/definitions/t"}],"definitions":{"t":{"type":"integer"}}}`,
		`{"allOf":[{"$ref":"#/definitions/t","type":"string"}],"definitions":{"t":{"type":"integer"}}}`,
		`{"items":[{"type":"integer"}],"additionalItems":false}`,
		`{"dependencies":{"p":["q"]},"properties":{"p":{"type":"integer"}}}`,
		`{"type":"integer"}`,
		`{"definitions":{"k":{"$id":"#k","type":"integer"}},"properties":{"p":{"$ref":"#k"}},"items":{"$ref":"#k"}}`,
	}
	roots := []struct{ name, text string }{
		{"root", `{%s,"$ref":"http://h/r.json"}`},
		{"allOf", `{%s,"allOf":[{"$ref":"r.json"}]}`},
		{"properties/p", `{%s,"properties":{"p":{"$ref":"http://h/r.json"}}}`},
		{"definitions/d/items", `{%s,"definitions":{"d":{"items":{"$ref":"r.json"}}},"allOf":[{"$ref":"#/definitions/d"}]}`},
		{"additionalProperties", `{%s,"additionalProperties":{"$ref":"r.json"}}`},
		{"fragment", `{%s,"properties":{"p":{"$ref":"r.json#/definitions/t"}}}`},
		// the reference sits inside an embedded resource ($id of its own) of the draft-07 root
		{"embedded resource", `{%s,"definitions":{"e":{"$id":"http://h/emb/e.json","allOf":[{"$ref":"../r.json"}]}},"allOf":[{"$ref":"#/definitions/e"}]}`},
		{"embedded resource/properties", `{%s,"properties":{"p":{"$id":"http://h/e2.json","properties":{"p":{"$ref":"r.json"}},"items":{"$ref":"http://h/r.json"}}}}`},
	}
	for _, rootSchema := range []string{s07http, s07https} {
		for _, rt := range roots {
			for _, remoteSchema := range []string{"", s07http, s07https} {
				for bi, b := range bodies {
					if rt.name == "fragment" && !strings.Contains(b, `"t":`) {
						continue
					}
					root := fmt.Sprintf(rt.text, rootSchema)
					// one hop
					docs := map[string]string{"http://h/r.json": with(remoteSchema, b)}
					out = append(out, remoteCase{root, "http://h/root.json", docs, fmt.Sprintf("r.json=%s", docs["http://h/r.json"])})
					// two hops: r.json -> r2.json, neither declares more than remoteSchema
					if rt.name != "fragment" {
						docs2 := map[string]string{
							"http://h/r.json":  with(remoteSchema, `{"allOf":[{"$ref":"r2.json"}]}`),
							"http://h/r2.json": b,
						}
						out = append(out, remoteCase{root, "http://h/root.json", docs2, fmt.Sprintf("r.json=%s r2.json=%s", docs2["http://h/r.json"], b)})
						docs3 := map[string]string{
							"http://h/r.json":  with(remoteSchema, `{"properties":{"p":{"$ref":"r2.json"}},"items":{"$ref":"r2.json"}}`),
							"http://h/r2.json": b,
						}
						out = append(out, remoteCase{root, "http://h/root.json", docs3, fmt.Sprintf("r.json=%s r2.json=%s", docs3["http://h/r.json"], b)})
					}
					_ = bi
				}
			}
		}
	}
	return out
}

func Run(r *ev.Run) {
	thorough := r.Tier == "thorough"
	set := gen.Schemas07(thorough)
	pool := drive.StdPool()
	r.Rule("(1) every document of G-schema/07 with the draft-07 $schema (http form; https form for every 5th) x instance pool vs R1 in draft-07 mode; " +
		"(2) configuration axis: a pool of draft-sensitive schemas x $schema in {absent, 2020-12, draft-07 http, draft-07 https, draft-07 without '#', draft-04, 2019-09, 'x', 2020-12 with '#'}: supported values must give that draft's verdicts, unsupported ones must make Validate fail for every instance; " +
		"(3) remote documents (with/without their own $schema, 1 and 2 hops, reached from the root object / allOf / properties / definitions/items / additionalProperties / with a pointer fragment / from inside an embedded $id resource) that need a draft-07 reading; (4) every sequence of <=3 Resolve calls (roots of both drafts and two bases, optionally with a transient Loader fault) through ONE caching Loader: each call must give the result it gives with a fresh Loader; non-trivial = R1 evaluated an applicable keyword (1,3) or the refusal was checked (2)")
	r.Assume("R1 implements draft-07 (validated on the 913 official draft-07 cases at start-up)",
		"only draft-07 vocabulary is generated; remote documents never declare a different supported draft than the root")
	if n, bad, err := ref.CheckSuite("/repo"); err != nil || len(bad) > 0 {
		fmt.Fprintf(os.Stderr, "HARNESS-ERROR R1 fails the official suite: %v %v\n", err, bad)
		os.Exit(2)
	} else {
		r.Set("oracle_suite_cases_passed", n)
	}
	docs := make([]string, len(set.List))
	for i, t := range set.List {
		m := s07http
		if i%5 == 4 {
			m = s07https
		}
		docs[i] = with(m, t)
	}
	c01.CheckMeta(docs, ref.D07, nil)
	r.Set("schemas", len(docs))
	r.Set("pools", set.SortedPools())
	r.Set("instances", len(pool))
	par.For(len(docs), r.Expired, func(i int, j par.Journal) {
		drive.Against(r, j, docs[i], pool, drive.Opt{Draft: ref.D07})
		if i%997 == 0 {
			r.Sample(map[string]any{"schema": docs[i]})
		}
	})

	// (2) configuration axis
	axis := axisPool()
	type cfg struct {
		member    string
		supported bool
		draft     ref.Draft
	}
	cfgs := []cfg{
		{"", true, ref.D2020}, {s2020, true, ref.D2020}, {s07http, true, ref.D07}, {s07https, true, ref.D07},
		{`"$schema":"http://json-schema.org/draft-07/schema"`, false, 0},
		{`"$schema":"https://json-schema.org/draft-07/schema"`, false, 0},
		{`"$schema":"http://json-schema.org/draft-04/schema#"`, false, 0},
		{`"$schema":"https://json-schema.org/draft/2019-09/schema"`, false, 0},
		{`"$schema":"https://json-schema.org/draft/2020-12/schema#"`, false, 0},
		{`"$schema":"http://json-schema.org/draft-06/schema#"`, false, 0},
		{`"$schema":"x"`, false, 0},
		{`"$schema":"#"`, false, 0},
		{`"$schema":"HTTP://json-schema.org/draft-07/schema#"`, false, 0},
	}
	r.Set("axis_schemas", len(axis))
	r.Set("axis_configs", len(cfgs))
	par.For(len(axis)*len(cfgs), r.Expired, func(i int, j par.Journal) {
		a, c := axis[i/len(cfgs)], cfgs[i%len(cfgs)]
		text := with(c.member, a)
		if c.supported {
			drive.Against(r, j, text, pool, drive.Opt{Draft: c.draft, Prefix: "axis: "})
			return
		}
		key := "axis-refuse: " + text
		if r.OnlyKey != "" && r.OnlyKey != key {
			return
		}
		rs, stage, err := drive.Compile(text, nil)
		r.Eval(1)
		r.NontrivialN(1)
		if stage == "panic" {
			r.Fail(key, map[string]any{"class": "panic", "error": err.Error()})
			return
		}
		if stage != "" {
			r.Either() // refusing at Unmarshal/Resolve is also a refusal
			return
		}
		var accepted []string
		for _, in := range pool {
			ok, p := drive.Verdict(rs, in.Plain)
			if p != "" {
				r.Fail(key, map[string]any{"class": "panic", "panic": p})
				return
			}
			if ok {
				accepted = append(accepted, in.Text)
			}
		}
		if len(accepted) > 0 {
			if len(accepted) > 5 {
				accepted = accepted[:5]
			}
			r.Fail(key, map[string]any{"class": "unsupported-$schema-validated", "schema": text, "accepted_instances": accepted})
		}
		if i%101 == 0 {
			r.Sample(map[string]any{"axis_refusal": text})
		}
	})

	// (3) remote documents
	rc := remoteCases()
	r.Set("remote_universes", len(rc))
	rpool := drive.MkPool(gen.Vals(`1`, `"x"`, `1.5`, `null`, `[1]`, `["x"]`, `[1,"x"]`, `[1,1]`, `{"p":1}`, `{"p":"x"}`, `{"p":[1]}`, `{"p":1,"q":1}`, `[[1]]`, `[["x"]]`, `{"z":1}`, `{"z":"x"}`, `{}`, `[]`))
	par.For(len(rc), r.Expired, func(i int, j par.Journal) {
		c := rc[i]
		drive.Against(r, j, c.root, rpool, drive.Opt{Draft: ref.D07, Prefix: "remote: ", BaseURI: c.base, Docs: c.docs, DocsKey: c.key})
		if i%211 == 0 {
			ks := make([]string, 0, len(c.docs))
			for k := range c.docs {
				ks = append(ks, k)
			}
			sort.Strings(ks)
			r.Sample(map[string]any{"root": c.root, "loader_documents": c.docs})
		}
	})
	// (4) "read under the root's draft" must not depend on what the same Loader served to earlier
	// Resolve calls of roots of another draft, nor on earlier calls that failed half-way
	n := c14.LoaderHistories(r, thorough, "C02 ")
	r.Set("loader_history_operations", n)
}
