// Package c19 decides C19: Marshal output is deterministic and honours PropertyOrder.
package c19

import (
	"bytes"
	"encoding/json"
	"fmt"
	"math/bits"
	"reflect"
	"slices"
	"sort"
	"strconv"
	"strings"
	"verif/internal/envrun"

	"github.com/google/jsonschema-go/jsonschema"

	"verif/checks/c04"
	"verif/internal/ev"
	"verif/internal/gen"
	"verif/internal/par"
)

var names = []string{"a", "b", "c", "d", "é", ""}

// keysAt returns the key order of the object at the given path (a sequence of
// object keys) read from the token stream.
func keysAt(b []byte, path []string) ([]string, error) {
	dec := json.NewDecoder(bytes.NewReader(b))
	var walk func(path []string) ([]string, error)
	walk = func(path []string) ([]string, error) {
		tok, err := dec.Token()
		if err != nil {
			return nil, err
		}
		if tok == json.Delim('[') && len(path) > 0 {
			idx, err := strconv.Atoi(path[0])
			if err != nil {
				return nil, fmt.Errorf("array where path element %q is expected", path[0])
			}
			for i := 0; i < idx; i++ {
				var skip json.RawMessage
				if err := dec.Decode(&skip); err != nil {
					return nil, err
				}
			}
			return walk(path[1:])
		}
		if tok != json.Delim('{') {
			return nil, fmt.Errorf("not an object at path")
		}
		var keys []string
		for dec.More() {
			kt, err := dec.Token()
			if err != nil {
				return nil, err
			}
			k := kt.(string)
			keys = append(keys, k)
			if len(path) > 0 && k == path[0] {
				return walk(path[1:])
			}
			var skip json.RawMessage
			if err := dec.Decode(&skip); err != nil {
				return nil, err
			}
		}
		if len(path) > 0 {
			return nil, fmt.Errorf("path element %q not found", path[0])
		}
		return keys, nil
	}
	return walk(path)
}

// expected is R5's key order: listed names that exist, in list order, then the rest ascending.
func expected(props map[string]bool, order []string) []string {
	var out []string
	seen := map[string]bool{}
	for _, n := range order {
		if props[n] && !seen[n] {
			out = append(out, n)
			seen[n] = true
		}
	}
	var rest []string
	for n := range props {
		if !seen[n] {
			rest = append(rest, n)
		}
	}
	sort.Strings(rest)
	return append(out, rest...)
}

type cse struct {
	props []string
	order []string
	dup   bool
}

func orders(props []string) [][]string {
	var out [][]string
	out = append(out, nil, []string{})
	// every permutation of every subset of props
	var rec func(cur []string, used int)
	rec = func(cur []string, used int) {
		if len(cur) > 0 {
			out = append(out, append([]string(nil), cur...))
		}
		for i, p := range props {
			if used&(1<<i) == 0 {
				rec(append(cur, p), used|1<<i)
			}
		}
	}
	rec(nil, 0)
	return out
}

func cases() []cse {
	var out []cse
	for mask := 0; mask < 1<<len(names); mask++ {
		var props []string
		for i, n := range names {
			if mask&(1<<i) != 0 {
				props = append(props, n)
			}
		}
		if len(props) > 4 {
			continue
		}
		for _, o := range orders(props) {
			out = append(out, cse{props, o, false})
			// supersets: absent names at every position
			for pos := 0; pos <= len(o); pos++ {
				for _, absent := range []string{"zz", "A"} {
					if slices.Contains(props, absent) {
						continue
					}
					so := append(append(append([]string(nil), o[:pos]...), absent), o[pos:]...)
					out = append(out, cse{props, so, false})
					if pos == 0 && len(o) <= 2 {
						out = append(out, cse{props, append([]string{"zz2"}, so...), false})
					}
				}
			}
			// one duplicate
			if len(o) >= 1 && len(o) <= 3 {
				for i := range o {
					d := append(append([]string(nil), o...), o[i])
					out = append(out, cse{props, d, true})
				}
				out = append(out, cse{props, append([]string{"zz", "zz"}, o...), true})
			}
		}
	}
	// names whose JSON encoding orders differently from the name itself (a prefix followed by a
	// character below the closing quote, HTML-escaped and control characters, upper/lower case):
	// every subset of size <= 3 with no order, an empty order, and each single listed name
	odd := []string{"a", "a b", "a!", "a<b", "aBc", "a&c", "\u0001", "A", "x\ty", "x y", "a\u2028", "a\"", "a\\"}
	for mask := 0; mask < 1<<len(odd); mask++ {
		if bits.OnesCount(uint(mask)) > 3 || mask == 0 {
			continue
		}
		var props []string
		for i, n := range odd {
			if mask&(1<<i) != 0 {
				props = append(props, n)
			}
		}
		out = append(out, cse{props, nil, false}, cse{props, []string{}, false})
		for _, p := range props {
			out = append(out, cse{props, []string{p}, false})
		}
	}
	// wide objects (13, 20 and 40 properties): the unlisted names still come out ascending
	for _, n := range []int{13, 20, 40} {
		var props []string
		for i := 0; i < n; i++ {
			props = append(props, fmt.Sprintf("p%02d", (i*7)%n))
		}
		sorted := slices.Clone(props)
		slices.Sort(sorted)
		out = append(out, cse{props, nil, false}, cse{props, []string{sorted[n-1]}, false}, cse{props, []string{sorted[n/2], sorted[1]}, false}, cse{props, []string{sorted[0]}, false},
			cse{props, []string{sorted[n-1], "zz", sorted[0], sorted[n/2]}, false}, cse{props, []string{sorted[3], sorted[3]}, true}, cse{props, slices.Clone(sorted[n-5:]), false})
	}
	out = append(out, cse{nil, []string{"a", "a"}, true}, cse{[]string{}, []string{"a", "a"}, true}, cse{nil, []string{"a", "b", "a"}, true}, cse{nil, []string{"a", "b"}, false}, cse{[]string{}, []string{"zz"}, false})
	return out
}

// marshalHistories: "the same Schema value always marshals to the same bytes" - also after other
// Marshal calls, including calls that failed half-way through a nested "properties" object.
// Every sequence of <= 3 operations on one goroutine; each successful operation must give its
// initial result.
func marshalHistories(r *ev.Run) { MarshalHistories(r, "") }

// MarshalHistories is shared with C05 (prefix distinguishes the case keys).
func MarshalHistories(r *ev.Run, prefix string) {
	p := func(order []string, names ...string) *jsonschema.Schema {
		m := map[string]*jsonschema.Schema{}
		for _, n := range names {
			m[n] = &jsonschema.Schema{Type: "integer"}
		}
		return &jsonschema.Schema{Type: "object", Properties: m, PropertyOrder: order}
	}
	type op struct {
		name string
		mk   func() *jsonschema.Schema
	}
	ops := []op{
		{"fails: duplicate order in a nested property after two listed ones", func() *jsonschema.Schema {
			return &jsonschema.Schema{Properties: map[string]*jsonschema.Schema{"a": {}, "b": {}, "n": p([]string{"x", "x"}, "x", "y")}, PropertyOrder: []string{"a", "b", "n"}}
		}},
		{"fails: duplicate order in an unlisted nested property", func() *jsonschema.Schema {
			return &jsonschema.Schema{Properties: map[string]*jsonschema.Schema{"a": {}, "c": {}, "zz": {Items: p([]string{"q", "q"}, "q")}}, PropertyOrder: []string{"c"}}
		}},
		{"fails: duplicate at the root", func() *jsonschema.Schema { return p([]string{"a", "a"}, "a", "b") }},
		{"fails: a listed property is written, a later one cannot be marshalled (type and types)", func() *jsonschema.Schema {
			s := p([]string{"a", "n"}, "a", "b", "n")
			s.Properties["n"] = &jsonschema.Schema{Type: "integer", Types: []string{"string"}}
			return s
		}},
		{"ok: three unlisted properties", func() *jsonschema.Schema { return p(nil, "a", "b", "c") }},
		{"ok: one listed, two unlisted", func() *jsonschema.Schema { return p([]string{"b"}, "a", "b", "n") }},
		{"ok: nested, order lists an absent name", func() *jsonschema.Schema {
			return &jsonschema.Schema{Properties: map[string]*jsonschema.Schema{"a": p([]string{"zz", "y"}, "x", "y"), "x": {}}, PropertyOrder: []string{"x"}}
		}},
		{"ok: all listed, reversed", func() *jsonschema.Schema { return p([]string{"c", "b", "a"}, "a", "b", "c") }},
	}
	run := func(o op) string {
		b, err := json.Marshal(o.mk())
		if err != nil {
			return "error"
		}
		return string(b)
	}
	initial := make([]string, len(ops))
	for i, o := range ops {
		initial[i] = run(o)
	}
	var seq []int
	var rec func()
	rec = func() {
		if len(seq) > 0 {
			names := make([]string, len(seq))
			for i, k := range seq {
				names[i] = ops[k].name
			}
			key := prefix + "Marshal history " + strings.Join(names, " ; ")
			if r.OnlyKey == "" || r.OnlyKey == key {
				for step, k := range seq {
					if got := run(ops[k]); got != initial[k] {
						r.Fail(key, map[string]any{"class": "Marshal output depends on earlier Marshal calls", "step": step, "initially": initial[k], "in_this_history": got})
						break
					}
				}
				r.Eval(1)
				r.NontrivialN(1)
			}
		}
		if len(seq) == 3 {
			return
		}
		for k := range ops {
			seq = append(seq, k)
			rec()
			seq = seq[:len(seq)-1]
		}
	}
	rec()
	r.Set("marshal_history_initial_results", initial)
	sharedOrderArrays(r, prefix)
	longOrderDuplicates(r, prefix)
}

// longOrderDuplicates: PropertyOrder lists of 8..12 names over as many properties, with exactly one
// name listed twice - every name in turn, the second occurrence at every position: Marshal must
// refuse each of them (also one level down), and accept the list without the duplicate.
func longOrderDuplicates(r *ev.Run, prefix string) {
	n := 0
	for size := 8; size <= 12; size++ {
		names := make([]string, size)
		props := map[string]*jsonschema.Schema{}
		for i := range names {
			names[i] = fmt.Sprintf("p%02d", (i*7)%size) // not in sorted order
			props[names[i]] = &jsonschema.Schema{Type: "integer"}
		}
		ok := &jsonschema.Schema{Type: "object", Properties: props, PropertyOrder: append([]string(nil), names...)}
		if _, err := json.Marshal(ok); err != nil {
			r.Fail(fmt.Sprintf("%slong order without duplicate, %d names", prefix, size), map[string]any{"class": "refused", "error": err.Error()})
		}
		for d := 0; d < size; d++ { // the duplicated name
			for pos := 0; pos <= size; pos++ { // where its second occurrence is inserted
				order := append(append(append([]string(nil), names[:pos]...), names[d]), names[pos:]...)
				for _, nested := range []bool{false, true} {
					s := &jsonschema.Schema{Type: "object", Properties: props, PropertyOrder: order}
					if nested {
						s = &jsonschema.Schema{Properties: map[string]*jsonschema.Schema{"in": s}}
					}
					key := fmt.Sprintf("%slong order (%d names) lists %q twice, second occurrence at %d, nested=%v", prefix, size, names[d], pos, nested)
					if r.OnlyKey != "" && r.OnlyKey != key {
						continue
					}
					n++
					if b, err := json.Marshal(s); err == nil {
						r.Fail(key, map[string]any{"class": "duplicate in PropertyOrder accepted", "output": string(b)})
					}
				}
			}
		}
	}
	r.Eval(n)
	r.NontrivialN(n)
	r.Set("long_order_duplicate_cases", n)
}

// sharedOrderArrays: PropertyOrder lists of several live schemas that are prefixes of ONE backing
// array (long = append(base, ...); child.PropertyOrder = parentOrder[:1]). Every sequence of <=3
// Marshal calls over them gives each schema the bytes it has when it is built alone, and the
// backing array is not written to (not even behind the end of the shorter lists).
func sharedOrderArrays(r *ev.Run, prefix string) {
	type world struct {
		subjects []*jsonschema.Schema
		arrays   [][]string
	}
	build := func(share bool) world {
		lst := func(arr []string, n int) []string {
			if share {
				return arr[:n]
			}
			return append([]string(nil), arr[:n]...)
		}
		props := func(names ...string) map[string]*jsonschema.Schema {
			m := map[string]*jsonschema.Schema{}
			for _, n := range names {
				m[n] = &jsonschema.Schema{Type: "integer"}
			}
			return m
		}
		a1 := append(make([]string, 0, 8), "c", "a", "b", "d")
		a2 := append(make([]string, 0, 4), "n", "y", "x")
		short := &jsonschema.Schema{Type: "object", Properties: props("a", "b", "c", "d"), PropertyOrder: lst(a1, 1)} // lists c; a, b, d follow sorted
		mid := &jsonschema.Schema{Type: "object", Properties: props("a", "b", "c", "d", "e"), PropertyOrder: lst(a1, 2)}
		long := &jsonschema.Schema{Type: "object", Properties: props("a", "b", "c", "d"), PropertyOrder: lst(a1, 4)}
		child := &jsonschema.Schema{Type: "object", Properties: props("n", "q", "p"), PropertyOrder: lst(a2, 1)}
		parent := &jsonschema.Schema{Type: "object", Properties: map[string]*jsonschema.Schema{"n": child, "x": {Type: "string"}, "y": {Type: "boolean"}}, PropertyOrder: lst(a2, 3)}
		return world{[]*jsonschema.Schema{short, mid, long, parent, child}, [][]string{a1[:cap(a1)], a2[:cap(a2)]}}
	}
	names := []string{"short", "mid", "long", "parent", "child"}
	ref := build(false)
	want := make([]string, len(names))
	for i, s := range ref.subjects {
		b, err := json.Marshal(s)
		if err != nil {
			want[i] = "error"
		} else {
			want[i] = string(b)
		}
	}
	n := 0
	var seq []int
	var rec func()
	rec = func() {
		if len(seq) > 0 {
			w := build(true)
			before := fmt.Sprintf("%q", w.arrays)
			var hs []string
			for _, k := range seq {
				hs = append(hs, names[k])
			}
			key := prefix + "Marshal of schemas whose PropertyOrder lists share a backing array: " + strings.Join(hs, " ; ")
			if r.OnlyKey == "" || r.OnlyKey == key {
				n++
				for step, k := range seq {
					got := "error"
					if b, err := json.Marshal(w.subjects[k]); err == nil {
						got = string(b)
					}
					if got != want[k] {
						r.Fail(key, map[string]any{"class": "Marshal output depends on another schema's Marshal", "step": step, "alone": want[k], "in_this_history": got})
						break
					}
				}
				if after := fmt.Sprintf("%q", w.arrays); after != before {
					r.Fail(key, map[string]any{"class": "Marshal wrote into the caller's PropertyOrder backing array", "before": before, "after": after})
				}
			}
		}
		if len(seq) == 3 {
			return
		}
		for k := range names {
			seq = append(seq, k)
			rec()
			seq = seq[:len(seq)-1]
		}
	}
	rec()
	r.Eval(n)
	r.NontrivialN(n)
	r.Set("shared_order_array_histories", n)
}

func mkProps(ps []string) map[string]*jsonschema.Schema {
	if ps == nil {
		return nil
	}
	m := map[string]*jsonschema.Schema{}
	for i, p := range ps {
		m[p] = &jsonschema.Schema{Type: []string{"integer", "string", "boolean", "null"}[i%4]}
	}
	return m
}

func Run(r *ev.Run) {
	cs := cases()
	r.Rule("property name sets of size<=4 over {a,b,c,d,é,\"\"} x every PropertyOrder that is a permutation of a subset, such a list with names absent from properties inserted at every position, or a list with one duplicate (present or absent name); plus every name set of size<=3 over 13 names whose JSON encoding sorts differently from the name (space, !, <, &, control characters, U+2028, quote, backslash, case) with no / empty / single-name orders; each at the root, nested under properties / items / $defs / allOf / anyOf / oneOf / not / array-form items / dependencies (schema form beside a string form) / patternProperties / dependentSchemas+then with an own order on both levels, and marshalled as a value inside map[string]Schema; duplicates also with nil and empty Properties. Oracle R5: key order read from the token stream = listed names that exist, in list order, then the rest ascending; a duplicate anywhere in the tree makes Marshal fail. Histories: every sequence of <=3 Marshal calls over 8 schemas (4 of which fail, two of them half-way through a nested properties object) gives each call its initial result; every sequence of <=3 Marshal calls over 5 live schemas whose PropertyOrder lists are prefixes of one backing array (siblings, parent and child) gives each the bytes it has alone and leaves the array (to its capacity) unwritten. Determinism: 20 marshals of every value (and of every schema For returns for the G-type catalogue, also around overridden embedded structs, 20 x For+Marshal) give identical bytes; the caller's PropertyOrder slice is unchanged afterwards. Non-trivial = every case (distinct by construction)")
	r.Assume("R5 is the documented rule of Schema.PropertyOrder", "map-iteration orders are explored in the instrumented build (C19 env part); here repetition only confirms")
	r.Set("cases", len(cs))
	type nest struct {
		name string
		wrap func(inner *jsonschema.Schema) (*jsonschema.Schema, []string)
	}
	nests := []nest{
		{"root", func(in *jsonschema.Schema) (*jsonschema.Schema, []string) { return in, []string{"properties"} }},
		{"properties", func(in *jsonschema.Schema) (*jsonschema.Schema, []string) {
			return &jsonschema.Schema{Properties: map[string]*jsonschema.Schema{"z": in, "y": {}}, PropertyOrder: []string{"z", "y"}}, []string{"properties", "z", "properties"}
		}},
		{"items", func(in *jsonschema.Schema) (*jsonschema.Schema, []string) {
			return &jsonschema.Schema{Items: in}, []string{"items", "properties"}
		}},
		{"$defs", func(in *jsonschema.Schema) (*jsonschema.Schema, []string) {
			return &jsonschema.Schema{Defs: map[string]*jsonschema.Schema{"d": in}}, []string{"$defs", "d", "properties"}
		}},
		{"allOf[0]", func(in *jsonschema.Schema) (*jsonschema.Schema, []string) {
			return &jsonschema.Schema{AllOf: []*jsonschema.Schema{in, {}}}, []string{"allOf", "0", "properties"}
		}},
		{"anyOf[1]", func(in *jsonschema.Schema) (*jsonschema.Schema, []string) {
			return &jsonschema.Schema{AnyOf: []*jsonschema.Schema{{}, in}}, []string{"anyOf", "1", "properties"}
		}},
		{"oneOf[0]", func(in *jsonschema.Schema) (*jsonschema.Schema, []string) {
			return &jsonschema.Schema{OneOf: []*jsonschema.Schema{in}}, []string{"oneOf", "0", "properties"}
		}},
		{"not", func(in *jsonschema.Schema) (*jsonschema.Schema, []string) {
			return &jsonschema.Schema{Not: in}, []string{"not", "properties"}
		}},
		{"items[1] (array form)", func(in *jsonschema.Schema) (*jsonschema.Schema, []string) {
			return &jsonschema.Schema{ItemsArray: []*jsonschema.Schema{{}, in}}, []string{"items", "1", "properties"}
		}},
		{"dependencies.k (schema form, next to a string form)", func(in *jsonschema.Schema) (*jsonschema.Schema, []string) {
			return &jsonschema.Schema{DependencySchemas: map[string]*jsonschema.Schema{"k": in}, DependencyStrings: map[string][]string{"j": {"a"}}}, []string{"dependencies", "k", "properties"}
		}},
		{"patternProperties", func(in *jsonschema.Schema) (*jsonschema.Schema, []string) {
			return &jsonschema.Schema{PatternProperties: map[string]*jsonschema.Schema{"^p": in}}, []string{"patternProperties", "^p", "properties"}
		}},
		{"dependentSchemas + if/then", func(in *jsonschema.Schema) (*jsonschema.Schema, []string) {
			return &jsonschema.Schema{DependentSchemas: map[string]*jsonschema.Schema{"k": {If: &jsonschema.Schema{}, Then: in}}}, []string{"dependentSchemas", "k", "then", "properties"}
		}},
		{"value in map[string]Schema", nil},
	}
	par.For(len(cs)*len(nests), r.Expired, func(idx int, j par.Journal) {
		c, n := cs[idx/len(nests)], nests[idx%len(nests)]
		if n.name != "root" && len(c.props) > 3 {
			return
		}
		key := fmt.Sprintf("Marshal(%s: properties=%q order=%q)", n.name, c.props, c.order)
		if r.OnlyKey != "" && r.OnlyKey != key {
			return
		}
		j.Begin(key)
		defer j.End()
		inner := &jsonschema.Schema{Type: "object", Properties: mkProps(c.props), PropertyOrder: c.order}
		orderCopy := slices.Clone(c.order)
		var s *jsonschema.Schema
		var path []string
		var b []byte
		var err error
		marshal := func() ([]byte, error) { return json.Marshal(s) }
		if n.wrap == nil {
			// marshalled as a value (not through a pointer), inside a map
			s, path = inner, []string{"v", "properties"}
			marshal = func() ([]byte, error) { return json.Marshal(map[string]jsonschema.Schema{"v": *inner}) }
		} else {
			s, path = n.wrap(inner)
		}
		if p := par.Call(func() { b, err = marshal() }); p != "" {
			r.Fail(key, map[string]any{"class": "panic", "panic": p})
			return
		}
		r.Eval(1)
		r.NontrivialN(1)
		if c.dup {
			if err == nil {
				r.Fail(key, map[string]any{"class": "duplicate PropertyOrder entry accepted", "output": string(b)})
			}
			return
		}
		if err != nil {
			r.Fail(key, map[string]any{"class": "marshal error", "error": err.Error()})
			return
		}
		set := map[string]bool{}
		for _, p := range c.props {
			set[p] = true
		}
		want := expected(set, c.order)
		got, kerr := keysAt(b, path)
		if len(c.props) == 0 {
			got, kerr = nil, nil // no "properties" member to read
		}
		if kerr != nil || !slices.Equal(got, want) {
			r.Fail(key, map[string]any{"class": "property order", "want": want, "got": got, "output": string(b), "error": fmt.Sprint(kerr)})
		}
		for rep := 0; rep < 20; rep++ {
			b2, err2 := marshal()
			if err2 != nil || !bytes.Equal(b, b2) {
				r.Fail(key, map[string]any{"class": "repeated marshal differs", "first": string(b), "later": string(b2), "error": fmt.Sprint(err2)})
				break
			}
		}
		if !slices.Equal(c.order, orderCopy) || !slices.Equal(inner.PropertyOrder, orderCopy) {
			r.Fail(key, map[string]any{"class": "PropertyOrder modified by Marshal", "before": orderCopy, "after": inner.PropertyOrder})
		}
		if idx%1999 == 0 {
			r.Sample(map[string]any{"case": key, "output": string(b)})
		}
	})
	// schemas For returns: PropertyOrder = field order; marshal deterministic and ordered
	ts := c04.Types(false)
	par.For(len(ts), r.Expired, func(i int, j par.Journal) {
		t := ts[i]
		if t.Type.Kind() != reflect.Struct || !c04.InDomain(t) {
			return
		}
		s, err := jsonschema.ForType(t.Type, nil)
		if err != nil || s == nil {
			return
		}
		key := "Marshal(ForType(" + t.Desc + "))"
		b, err := json.Marshal(s)
		if err != nil {
			r.Fail(key, map[string]any{"class": "marshal error", "error": err.Error()})
			return
		}
		r.Eval(1)
		r.NontrivialN(1)
		if len(s.Properties) > 0 {
			set := map[string]bool{}
			for p := range s.Properties {
				set[p] = true
			}
			want := expected(set, s.PropertyOrder)
			got, kerr := keysAt(b, []string{"properties"})
			if kerr != nil || !slices.Equal(got, want) {
				r.Fail(key, map[string]any{"class": "property order", "want": want, "got": got, "output": strings.TrimSpace(string(b))})
			}
		}
		for rep := 0; rep < 5; rep++ {
			if b2, _ := json.Marshal(s); !bytes.Equal(b, b2) {
				r.Fail(key, map[string]any{"class": "repeated marshal differs"})
				break
			}
		}
	})
	// schemas For builds around an overridden embedded struct (PropertyOrder assembled from the override's properties)
	ov := func(names ...string) *jsonschema.Schema {
		m := map[string]*jsonschema.Schema{}
		for _, n := range names {
			m[n] = &jsonschema.Schema{Type: "integer"}
		}
		return &jsonschema.Schema{Type: "object", Properties: m}
	}
	for _, t := range []reflect.Type{reflect.TypeOf(gen.EmbVal{}), reflect.TypeOf(gen.EmbPtr{}), reflect.TypeOf(gen.Emb2{}), reflect.TypeOf(gen.TopOver{}), reflect.TypeOf(gen.MidOver{}), reflect.TypeOf(gen.ShadowAfter{}), reflect.TypeOf([]gen.Emb2Ptr{})} {
		for oi, tsm := range []map[reflect.Type]*jsonschema.Schema{
			{reflect.TypeOf(gen.Inner{}): ov("zz", "aa", "Z", "mm")}, {reflect.TypeOf(gen.Base{}): ov("id2", "after", "a b")}, {reflect.TypeOf(gen.Mid{}): ov("b", "a")}, {reflect.TypeOf(gen.Inner{}): ov()},
		} {
			s, err := jsonschema.ForType(t, &jsonschema.ForOptions{TypeSchemas: tsm})
			if err != nil || s == nil {
				continue
			}
			key := fmt.Sprintf("Marshal(ForType(%s, embedded override %d))", t, oi)
			if r.OnlyKey != "" && r.OnlyKey != key {
				continue
			}
			b, err := json.Marshal(s)
			if err != nil {
				r.Fail(key, map[string]any{"class": "marshal error", "error": err.Error()})
				continue
			}
			r.Eval(1)
			r.NontrivialN(1)
			var check func(x *jsonschema.Schema, path []string)
			check = func(x *jsonschema.Schema, path []string) {
				if x == nil {
					return
				}
				if len(x.Properties) > 0 {
					set := map[string]bool{}
					for p := range x.Properties {
						set[p] = true
					}
					want := expected(set, x.PropertyOrder)
					got, kerr := keysAt(b, append(append([]string(nil), path...), "properties"))
					if kerr != nil || !slices.Equal(got, want) {
						r.Fail(key, map[string]any{"class": "property order", "want": want, "got": got, "output": strings.TrimSpace(string(b)), "error": fmt.Sprint(kerr)})
					}
				}
				check(x.Items, append(append([]string(nil), path...), "items"))
			}
			check(s, nil)
			for rep := 0; rep < 20; rep++ {
				s2, _ := jsonschema.ForType(t, &jsonschema.ForOptions{TypeSchemas: tsm})
				if b2, _ := json.Marshal(s2); !bytes.Equal(b, b2) {
					r.Fail(key, map[string]any{"class": "repeated For+Marshal differs", "first": string(b), "later": string(b2)})
					break
				}
			}
		}
	}
	marshalHistories(r)
	if r.OnlyKey == "" || true {
		envrun.Explore(r, "ENV", "c19env", "env", 16)
	}
}
