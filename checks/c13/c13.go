// Package c13 decides C13: a Resolved and shared schemas are safe for
// concurrent use. Two halves: (1) every schedule of small closed scenarios up
// to a preemption bound under a cooperative scheduler (sched build), results
// compared with the sequential results; (2) the same bodies free-running under
// the race detector in fresh processes.
package c13

import (
	"bytes"
	"fmt"
	"os"
	"os/exec"
	"strings"
	"sync"

	"verif/internal/envrun"
	"verif/internal/ev"
)

func Run(r *ev.Run) {
	r.Rule("scenarios (2-3 threads, 1 call each, on shared inputs with forced collisions): V2/V2b 2xValidate through different dynamic scopes, V3 3xValidate, AD 2xApplyDefaults+Validate, ADS ApplyDefaults into struct-element maps (struct field cache cold), MU Marshal||Unmarshal (JSON-name cache cold), CMR Clone||Marshal||Resolve, RR 2xResolve through a Loader, FF 3xFor with TypeSchemas, VV-cold first calls on a cold Resolved. " +
		"Controlled half: the package is rebuilt with a scheduling point before every statement that can touch shared memory and with sync/atomic replaced by cooperative shims; lazily written globals are reset before every execution; ALL schedules with at most b preemptions are executed (b chosen per scenario as the largest bound whose schedule count fits the budget; reported), each compared with the sequential results (which are first shown to be order-independent), shared inputs unchanged, no panic, no deadlock, no horizon hit. states = distinct schedule prefixes executed, transitions = scheduling points passed. " +
		"Race half: the same bodies released from a barrier under -race in fresh processes (cold caches), GOMAXPROCS in {2,4,16}. Non-trivial = every execution")
	r.Assume("standard-library internals (regexp, reflect, encoding/json caches, sync.Map) are linearizable and run atomically between scheduling points",
		"statement granularity: sub-statement interleavings matter only in the presence of a data race, which the race half reports",
		"a race-free program has only sequentially consistent executions (Go memory model), which the cooperative scheduler enumerates up to the preemption bound")
	// controlled half
	bin, why := envrun.Available("SCHED")
	if bin == "" {
		r.NotExhaustive("controlled exploration skipped: " + why)
		r.Set("sched_instrumentation_skipped", why)
	} else {
		tr, err := envrun.Run(r, bin, "transparency", 1)
		switch {
		case err != nil:
			r.NotExhaustive("controlled exploration skipped: " + err.Error())
		case len(tr.Failures) > 0:
			r.NotExhaustive("controlled exploration skipped: the instrumented build does not reproduce the official suite")
			fmt.Fprintln(os.Stderr, "HARNESS-ERROR instrumentation transparency:", tr.Failures[0])
		default:
			r.Set("sched_transparency_cases", tr.Executions)
			w, err := envrun.Run(r, bin, "c13", 16, "GOMAXPROCS=1")
			if err != nil {
				fmt.Fprintln(os.Stderr, "HARNESS-ERROR", err)
				os.Exit(2)
			}
			if w.Divergence != "" {
				fmt.Fprintln(os.Stderr, "HARNESS-ERROR nondeterminism not owned:", w.Divergence)
				os.Exit(2)
			}
			envrun.Merge(r, "sched", w)
		}
	}
	// race half
	rbin, why := envrun.Available("RACE")
	if rbin == "" {
		r.NotExhaustive("race pass skipped: " + why)
		return
	}
	procs := 16
	if r.Tier == "thorough" {
		procs = 48
	}
	var mu sync.Mutex
	var wg sync.WaitGroup
	sem := make(chan struct{}, 16)
	total := 0
	for p := 0; p < procs; p++ {
		wg.Add(1)
		sem <- struct{}{}
		go func(p int) {
			defer wg.Done()
			defer func() { <-sem }()
			cmd := exec.Command(rbin, "worker", "c13race", r.Tier, fmt.Sprint(p), fmt.Sprint(procs))
			cmd.Env = append(os.Environ(), "VF_CHILD=1", "GORACE=halt_on_error=0 exitcode=66")
			var stderr bytes.Buffer
			cmd.Stderr = &stderr
			out, err := cmd.Output()
			mu.Lock()
			defer mu.Unlock()
			se := stderr.String()
			if strings.Contains(se, "DATA RACE") {
				r.Fail(fmt.Sprintf("data race (free run, process %d)", p), map[string]any{"class": "data race", "report": firstReport(se)})
			}
			for _, l := range strings.Split(string(out), "\n") {
				if strings.HasPrefix(l, "RESULT ") {
					var n int
					fmt.Sscanf(between(l, `"executions":`, ","), "%d", &n)
					total += n
					if i := strings.Index(l, `"failures":[`); i >= 0 {
						r.Fail(fmt.Sprintf("free run result (process %d)", p), map[string]any{"class": "concurrent result differs", "detail": l[i:min(len(l), i+800)]})
					}
				}
			}
			if err != nil && !strings.Contains(se, "DATA RACE") && !strings.Contains(string(out), "RESULT ") {
				r.Fail(fmt.Sprintf("free run crashed (process %d)", p), map[string]any{"class": "crash", "stderr": tail(se, 1500)})
			}
		}(p)
	}
	wg.Wait()
	r.Set("race_processes", procs)
	r.Set("race_free_running_executions", total)
	r.Eval(total)
	r.NontrivialN(total)
}

func between(s, a, b string) string {
	i := strings.Index(s, a)
	if i < 0 {
		return ""
	}
	s = s[i+len(a):]
	if j := strings.Index(s, b); j >= 0 {
		return s[:j]
	}
	return s
}

func firstReport(s string) string {
	i := strings.Index(s, "WARNING: DATA RACE")
	if i < 0 {
		return ""
	}
	s = s[i:]
	if j := strings.Index(s[10:], "=================="); j >= 0 {
		s = s[:j+10]
	}
	if len(s) > 3000 {
		s = s[:3000]
	}
	return s
}

func tail(s string, n int) string {
	if len(s) > n {
		return s[len(s)-n:]
	}
	return s
}
