// Package c18 decides C18: non-asserting and unknown keywords (matched
// case-sensitively) never change a verdict, and documents containing unknown
// keywords are always accepted by Unmarshal.
package c18

import (
	"bytes"
	"encoding/json"
	"fmt"
	"sort"
	"strings"

	"github.com/google/jsonschema-go/jsonschema"

	"verif/internal/drive"
	"verif/internal/ev"
	"verif/internal/gen"
	"verif/internal/par"
	"verif/internal/ref"
)

type deco struct {
	k, v   string
	k2, v2 string // optional second keyword inserted together with the first
	k3, v3 string
	only07 bool // applies to bases under the draft-07 $schema only
}

func decorations() []deco {
	var d []deco
	for _, k := range []string{"title", "description", "$comment"} {
		d = append(d, deco{k: k, v: `"t"`})
	}
	for _, v := range []string{`null`, `1`, `"s"`, `[1]`, `{"a":1}`, `true`} {
		d = append(d, deco{k: "default", v: v})
	}
	// values no Go float64 can hold, and values shaped like schemas (they are data, not schemas)
	for _, v := range []string{`1e400`, `-1e400`, `[1e400]`, `12345678901234567890`, `{"$ref":"#/nope"}`, `{"$id":"http://o/","$anchor":"k","$dynamicAnchor":"k","$ref":"nope.json"}`} {
		d = append(d, deco{k: "default", v: v})
	}
	d = append(d, deco{k: "examples", v: `[{"$anchor":"k"},{"$ref":"#/nope"},{"$id":"http://o/"}]`}, deco{k: "examples", v: `[12345678901234567890]`}, deco{k: "examples", v: `[1e400,"s",[-1e400]]`})
	d = append(d, deco{k: "examples", v: `[1,"s",null,{"a":[]}]`}, deco{k: "examples", v: `[]`})
	for _, k := range []string{"deprecated", "readOnly", "writeOnly"} {
		d = append(d, deco{k: k, v: `true`}, deco{k: k, v: `false`})
	}
	for _, v := range []string{`"email"`, `"date-time"`, `"x"`, `"uri"`, `"regex"`, `"ipv4"`, `"ipv6"`, `"uuid"`, `"date"`, `"time"`, `"hostname"`, `"duration"`, `"json-pointer"`, `"relative-json-pointer"`, `"uri-reference"`, `"iri"`, `"idn-email"`, `"uri-template"`, `""`} {
		d = append(d, deco{k: "format", v: v})
	}
	d = append(d, deco{k: "contentEncoding", v: `"base64"`}, deco{k: "contentMediaType", v: `"application/json"`}, deco{k: "contentSchema", v: `false`}, deco{k: "contentSchema", v: `{"type":"string"}`})
	// combinations of the content keywords
	d = append(d, deco{k: "contentMediaType", v: `"application/json"`, k2: "contentSchema", v2: `{"type":"integer"}`},
		deco{k: "contentMediaType", v: `"application/json"`, k2: "contentSchema", v2: `false`, k3: "contentEncoding", v3: `"base64"`},
		deco{k: "contentEncoding", v: `"base16"`, k2: "contentSchema", v2: `{"not":{}}`},
		deco{k: "format", v: `"regex"`, k2: "readOnly", v2: `true`, k3: "deprecated", v3: `true`})
	// names from other drafts and dialects
	for _, kv := range [][2]string{{"id", `"http://x/y"`}, {"id", `1`}, {"$recursiveRef", `"#"`}, {"$recursiveAnchor", `true`}, {"nullable", `true`}, {"divisibleBy", `7`}, {"extends", `{"type":"string"}`}, {"disallow", `["object"]`},
		{"$data", `"/a"`}, {"discriminator", `{"propertyName":"a"}`}, {"xml", `{}`}, {"example", `1`}, {"minContainss", `9`}, {"patternRequired", `["^z"]`}} {
		d = append(d, deco{k: kv[0], v: kv[1]})
	}
	// keywords that only later drafts know are unknown keywords in a draft-07 document
	for _, kv := range [][2]string{{"prefixItems", `[{"type":"string"}]`}, {"prefixItems", `[false]`}, {"minContains", `0`}, {"minContains", `5`}, {"maxContains", `0`}, {"unevaluatedItems", `false`},
		{"unevaluatedProperties", `false`}, {"dependentRequired", `{"a":["zz"]}`}, {"dependentSchemas", `{"a":false}`},
		// ... and declare nothing there: a name that a fragment-only $id of the document also uses stays that $id's
		{"$anchor", `"k"`}, {"$dynamicAnchor", `"k"`}, {"$anchor", `"d"`}, {"$dynamicRef", `"#k"`}, {"$dynamicRef", `"#/nope"`}} {
		d = append(d, deco{k: kv[0], v: kv[1], only07: true})
	}
	for _, k := range []string{"x", "Extra"} {
		for _, v := range []string{`1e400`, `-1e400`, `[1e400]`, `{"a":1e400}`, `12345678901234567890`, `0.1000000000000000000001`, `{"$id":"http://o/","$anchor":"k","$dynamicAnchor":"k","$ref":"#/nope"}`, `[{"$ref":"#/nope"}]`} {
			d = append(d, deco{k: k, v: v})
		}
	}
	d = append(d, deco{k: "$defs", v: `{"zzz":false}`}, deco{k: "$defs", v: `{"zzz":{"type":"string","minLength":100}}`}, deco{k: "definitions", v: `{"zzz":false}`}, deco{k: "definitions", v: `{"zzz":{"not":{}}}`})
	for _, k := range []string{"x", "x-y", "Extra", "extra", "PropertyOrder", "propertyOrder", "ID", "DynamicRef", "unknown keyword", "", "é"} {
		for _, v := range []string{`1`, `"s"`, `null`, `true`, `[1]`, `{"a":1}`, `false`} {
			d = append(d, deco{k: k, v: v})
		}
	}
	// case variants of real keywords with values that would assert (or be refused) if matched
	for _, kv := range [][2]string{
		{"Type", `"string"`}, {"TYPE", `"null"`}, {"Type", `1`}, {"Required", `["zz"]`}, {"MINIMUM", `100`}, {"Maximum", `-100`}, {"Enum", `[]`}, {"ENUM", `[12345]`}, {"Not", `{}`}, {"NOT", `true`},
		{"Properties", `{"a":false}`}, {"TITLE", `1`}, {"Description", `[]`}, {"$Ref", `"#/nope"`}, {"$REF", `"#"`}, {"Items", `false`}, {"AllOf", `[false]`}, {"ANYOF", `[false]`}, {"OneOf", `[]`},
		{"Const", `12345`}, {"MaxLength", `0`}, {"MinLength", `"x"`}, {"UniqueItems", `true`}, {"AdditionalProperties", `false`}, {"additionalproperties", `false`}, {"$Id", `"http://x/y"`}, {"$ID", `1`},
		{"$Schema", `"x"`}, {"$Anchor", `"k"`}, {"Default", `{`[:0] + `{"a":1}`}, {"MaxItems", `0`}, {"MinProperties", `99`}, {"PropertyNames", `false`}, {"Contains", `false`}, {"If", `true`}, {"Then", `false`},
		{"DependentRequired", `{"a":["zz"]}`}, {"Dependencies", `{"a":["zz"]}`}, {"PrefixItems", `[false]`}, {"UnevaluatedProperties", `false`}, {"unevaluatedproperties", `false`}, {"Pattern", `"^$"`}, {"pATTERN", `"("`},
		// keys that only Unicode simple case folding (as used by encoding/json) maps onto a keyword:
		// U+017F LATIN SMALL LETTER LONG S folds to "s", U+212A KELVIN SIGN to "k"
		{"itemſ", `false`}, {"conſt", `12345`}, {"propertieſ", `{"a":false}`}, {"minItemſ", `"x"`}, {"allOfſ", `1`}, {"$defſ", `1`}, {"$ſchema", `"x"`}, {"unevaluatedPropertieſ", `false`},
		{"uniqueItemſ", `true`}, {"dependentſchemas", `{"a":false}`}, {"enumK", `[]`}, {"ITEMſ", `false`},
		{"MultipleOf", `7`}, {"ExclusiveMinimum", `1e9`}, {"Deprecated", `"yes"`}, {"$Defs", `1`}, {"$dynamicref", `"#nope"`}, {"Format", `1`}, {"$Vocabulary", `{"x":true}`}, {"Examples", `1`},
	} {
		d = append(d, deco{k: kv[0], v: kv[1]})
	}
	return d
}

// pointersOf lists the JSON pointers of all object-valued subschema positions.
func pointersOf(text string, d ref.Draft) []string {
	u, err := ref.NewUniverseD(text, "", nil, nil, d)
	if err != nil {
		return nil
	}
	var ps []string
	var walk func(n *ref.Node)
	walk = func(n *ref.Node) {
		if n.IsBool {
			return
		}
		ps = append(ps, n.Ptr)
		for _, k := range sortedK(n.Sub) {
			walk(n.Sub[k])
		}
		for _, k := range sortedK(n.SubArr) {
			for _, c := range n.SubArr[k] {
				walk(c)
			}
		}
		for _, k := range sortedK(n.SubMap) {
			m := n.SubMap[k]
			for _, kk := range sortedK(m) {
				walk(m[kk])
			}
		}
	}
	walk(u.Root.Root)
	return ps
}

func sortedK[V any](m map[string]V) []string {
	ks := make([]string, 0, len(m))
	for k := range m {
		ks = append(ks, k)
	}
	sort.Strings(ks)
	return ks
}

func decodeTree(text string) any {
	dec := json.NewDecoder(strings.NewReader(text))
	dec.UseNumber()
	var x any
	dec.Decode(&x)
	return x
}

func deepCopy(x any) any {
	switch x := x.(type) {
	case map[string]any:
		m := make(map[string]any, len(x))
		for k, v := range x {
			m[k] = deepCopy(v)
		}
		return m
	case []any:
		a := make([]any, len(x))
		for i, v := range x {
			a[i] = deepCopy(v)
		}
		return a
	}
	return x
}

// decorate inserts key:value at the subschema addressed by ptr; ok is false if
// the key already exists there.
func decorate(tree any, ptr string, d deco) (string, bool) {
	t := deepCopy(tree)
	cur := t
	toks, _ := ref.ParsePointer(ptr)
	for _, tk := range toks {
		switch c := cur.(type) {
		case map[string]any:
			cur = c[tk]
		case []any:
			i, _ := ref.ArrayIndex(tk)
			cur = c[i]
		}
	}
	m, isObj := cur.(map[string]any)
	if !isObj {
		return "", false
	}
	var buf bytes.Buffer
	var enc *json.Encoder
	if ex, dup := m[d.k]; dup {
		// unreferenced $defs / definitions entries are merged into an existing container
		exm, isMap := ex.(map[string]any)
		if !isMap || (d.k != "$defs" && d.k != "definitions") {
			return "", false
		}
		var add map[string]json.RawMessage
		if json.Unmarshal([]byte(d.v), &add) != nil {
			return "", false
		}
		added := false
		for k, v := range add {
			if _, has := exm[k]; !has {
				exm[k] = v
				added = true
			}
		}
		if !added {
			return "", false
		}
		goto encode
	}
	// documented exclusivity: $defs and definitions must not both be present
	if _, has := m["$defs"]; has && d.k == "definitions" {
		return "", false
	}
	if _, has := m["definitions"]; has && d.k == "$defs" {
		return "", false
	}
	m[d.k] = json.RawMessage(d.v)
	for _, kv := range [][2]string{{d.k2, d.v2}, {d.k3, d.v3}} {
		if kv[0] == "" {
			continue
		}
		if _, dup := m[kv[0]]; dup {
			return "", false
		}
		m[kv[0]] = json.RawMessage(kv[1])
	}
encode:
	enc = json.NewEncoder(&buf)
	enc.SetEscapeHTML(false)
	if err := enc.Encode(t); err != nil {
		return "", false
	}
	return strings.TrimSpace(buf.String()), true
}

type base struct {
	text  string
	draft ref.Draft
	insts []string // extra instances that make the base's behaviour observable
}

// defNames collects the member names of every $defs / definitions container.
func defNames(tree any, out map[string]bool) {
	switch t := tree.(type) {
	case map[string]any:
		for k, v := range t {
			if m, ok := v.(map[string]any); ok && (k == "$defs" || k == "definitions") {
				for name := range m {
					out[name] = true
				}
			}
			defNames(v, out)
		}
	case []any:
		for _, v := range t {
			defNames(v, out)
		}
	}
}

func bases(thorough bool) []base {
	var out []base
	s20 := gen.Schemas2020(false)
	s07 := gen.Schemas07(false)
	stride := 5
	if thorough {
		stride = 1
	}
	n := 0
	for _, t := range s20.List {
		if !strings.HasPrefix(t, "{") {
			continue
		}
		n++
		if n%stride == 0 {
			out = append(out, base{t, ref.D2020, nil})
		}
		if n > 2600 && !thorough { // P0, P1 and the start of P2
			break
		}
	}
	n = 0
	for _, t := range s07.List {
		n++
		if n%stride == 0 && strings.HasPrefix(t, "{") && t != "{}" {
			out = append(out, base{`{"$schema":"http://json-schema.org/draft-07/schema#",` + t[1:], ref.D07, nil})
		}
		if n > 1500 && !thorough {
			break
		}
	}
	// hand-picked bases with references and dynamic scope (decorating an alias must not matter)
	for _, t := range []string{
		`{"$defs":{"d":{"type":"integer"}},"$ref":"#/$defs/d"}`,
		`{"$defs":{"d":{"type":"integer"}},"properties":{"a":{"$ref":"#/$defs/d"}},"items":{"$ref":"#/$defs/d"}}`,
		`{"$id":"http://h/root.json","$ref":"list.json","$defs":{"elem":{"$dynamicAnchor":"T","type":"integer"},"list":{"$id":"list.json","items":{"$dynamicRef":"#T"},"$defs":{"any":{"$dynamicAnchor":"T"}}}}}`,
		`{"$id":"http://h/root.json","properties":{"p":{"$ref":"mid.json"}},"$defs":{"mid":{"$id":"mid.json","$ref":"list.json","$defs":{"elem":{"$dynamicAnchor":"T","type":"integer"}}},"list":{"$id":"list.json","items":{"$dynamicRef":"#T"},"$defs":{"any":{"$dynamicAnchor":"T","type":"string"}}}}}`,
		`{"$id":"http://h/root.json","$defs":{"value":{"type":"string"},"item":{"$id":"item.json","$defs":{"value":{"type":"integer"}}}},"properties":{"v":{"$ref":"item.json#/$defs/value"}}}`,
		`{"allOf":[{"properties":{"a":true}}],"unevaluatedProperties":false,"$defs":{"k":{"$anchor":"k","type":"integer"}},"properties":{"b":{"$ref":"#k"}}}`,
	} {
		out = append(out, base{t, ref.D2020, nil})
	}
	// draft-07 documents whose references go through fragment-only $id anchors
	for _, t := range []string{
		`{"definitions":{"a":{"type":"string"},"k":{"$id":"#k","type":"integer"},"z":{"type":"array"}},"properties":{"p":{"$ref":"#k"}},"items":{"$ref":"#k"}}`,
		`{"properties":{"a":{"type":"string"},"p":{"$ref":"#k"}},"definitions":{"e":{"$id":"http://h/e.json","definitions":{"k":{"$id":"#k","type":"integer"}},"items":{"$ref":"#k"}},"k":{"$id":"#k","type":"boolean"}},"additionalProperties":{"$ref":"http://h/e.json"}}`,
	} {
		out = append(out, base{`{"$schema":"http://json-schema.org/draft-07/schema#",` + t[1:], ref.D07, []string{`{"p":1}`, `{"p":"s"}`, `[1,"s"]`, `{"p":true,"q":[1]}`, `{"q":["s"]}`}})
	}
	out = append(out, base{`{"$id":"http://h/root.json","$ref":"mid.json#/$defs/alias","$defs":{"mid":{"$id":"mid.json","$defs":{"alias":{"$ref":"list.json"},"elem":{"$dynamicAnchor":"T","type":"integer"}}},"list":{"$id":"list.json","items":{"$dynamicRef":"#T"},"$defs":{"any":{"$dynamicAnchor":"T","type":"string"}}}}}`, ref.D2020, []string{`["x"]`, `[1,2]`}},
		base{`{"$id":"http://h/root.json","$ref":"item.json#/$defs/value","$defs":{"item":{"$id":"item.json","$defs":{"value":{"type":"integer"}}}}}`, ref.D2020, nil},
		base{`{"$id":"http://h/root.json","properties":{"v":{"$ref":"item.json#/$defs/value/items"}},"$defs":{"item":{"$id":"item.json","$defs":{"value":{"items":{"type":"integer"}}}},"other":{"$id":"other.json","$defs":{"x":true}}}}`, ref.D2020, []string{`{"v":"s"}`}})
	// empty-object subschemas (a decoration turns them into non-empty ones) whose annotations a
	// neighbouring unevaluated* keyword reads, and trivially false ones
	for _, t := range []string{
		`{"contains":{},"unevaluatedItems":false}`, `{"allOf":[{"contains":{}}],"unevaluatedItems":false}`, `{"contains":{},"minContains":2,"unevaluatedItems":{"type":"integer"}}`, `{"prefixItems":[{}],"unevaluatedItems":false}`,
		`{"items":{},"unevaluatedItems":false}`, `{"properties":{"a":{}},"unevaluatedProperties":false}`, `{"additionalProperties":{},"unevaluatedProperties":false}`, `{"patternProperties":{"^a":{}},"unevaluatedProperties":false}`,
		`{"if":{},"then":{"properties":{"a":{}}},"unevaluatedProperties":false}`, `{"anyOf":[{},{"required":["zz"]}],"unevaluatedProperties":false}`, `{"not":{"not":{}}}`, `{"propertyNames":{}}`, `{"dependentSchemas":{"a":{}},"unevaluatedProperties":false}`,
		`{"additionalProperties":{"not":{}}}`, `{"items":{"not":{}}}`, `{"properties":{"a":{"not":{}}}}`, `{"unevaluatedProperties":{"not":{}}}`, `{"contains":{"not":{}},"minContains":0}`, `{"prefixItems":[{"not":{}}]}`, `{"propertyNames":{"not":{}}}`,
	} {
		out = append(out, base{t, ref.D2020, []string{`[1,"x",2]`, `[[1]]`, `{"a":1,"ab":2}`}})
	}
	// enum / const members that float64 only approximates (a decoration must not change how they are read)
	for _, t := range []string{`{"enum":[0.1,3.14,"a"]}`, `{"const":0.1}`, `{"properties":{"a":{"enum":[0.1,9007199254740993]}},"items":{"enum":[2.2]}}`, `{"not":{"enum":[0.3]}}`} {
		out = append(out, base{t, ref.D2020, []string{`0.1`, `3.14`, `2.2`, `0.3`, `{"a":0.1}`, `[2.2,0.1]`, `0.30000000000000004`}})
	}
	// draft-07: $ref with siblings (the siblings are ignored, whatever decorates them)
	n = 0
	for _, t := range s07.List {
		if strings.Contains(t, `"$ref"`) && strings.HasPrefix(t, "{") {
			n++
			if n%stride == 0 || strings.Contains(t, `"not":{}`) {
				out = append(out, base{`{"$schema":"http://json-schema.org/draft-07/schema#",` + t[1:], ref.D07, []string{`[1,"x"]`, `["x",1,1]`, `{"a":"x"}`}})
			}
		}
	}
	// dynamic-scope chains and two-scope roots with everything embedded (no loader)
	k := 0
	take := func(u *gen.Universe) {
		if len(u.Docs) == 0 {
			k++
			if k%stride == 0 {
				out = append(out, base{u.Root, ref.D2020, u.Insts})
			}
		}
	}
	gen.Dyn(3, 3, func(u *gen.Universe) {
		if k%40 == 0 || len(u.Docs) > 0 {
			take(u)
		} else {
			k++
		}
	})
	gen.DynTwoScope(func(u *gen.Universe) {
		if k%8 == 0 || len(u.Docs) > 0 {
			take(u)
		} else {
			k++
		}
	})
	return out
}

func Run(r *ev.Run) {
	thorough := r.Tier == "thorough"
	bs := bases(thorough)
	decos := decorations()
	pool := drive.MkPool(gen.Vals(`null`, `true`, `0`, `1`, `1.5`, `-1`, `100`, `12345`, `""`, `"a"`, `"ab"`, `[]`, `[1]`, `[1,"a"]`, `[1,1]`, `[[1]]`, `{}`, `{"a":1}`, `{"a":"x"}`, `{"a":1,"b":2}`, `{"b":1}`, `{"zz":1}`, `{"a":{"a":1}}`, `{"p":[1,"x"]}`, `{"v":1}`, `{"v":"s"}`, `[1,"x"]`, `{"p":["x"]}`, `"("`, `" "`, `"%"`, `"1.2.3"`, `"\"x\""`, `"1"`, `"eA=="`))
	r.Rule("base schemas (G-schema/2020 P0+P1(+start of P2), G-schema/07 P0+P1 under the draft-07 $schema; quick every 5th; plus reference/dynamic-scope bases, bases with empty-object and trivially false subschemas next to unevaluated*, and the draft-07 $ref-with-siblings pool) x every object-valued subschema position x a decoration alphabet: the documented non-asserting keywords with values of every JSON type, unreferenced $defs/definitions entries, 11 unknown names x 7 values, numbers outside float64 (1e400, 20-digit integers) and schema-shaped objects as values of unknown keywords / default / examples, 24 format names, combinations of the content keywords, 14 keyword names of other drafts and dialects, and 51 letter-case variants of real keywords with values that would assert or be refused if matched. Unmarshal must accept the decorated document and the verdict vector over a 35-instance pool must equal the undecorated schema's. Non-trivial = a decorated document (distinct by construction)")
	r.Assume("the undecorated verdict is the oracle (differential); correctness of that verdict is C01/C02's business", "ValidateDefaults is off; decorations are well-formed where they are schemas")
	r.Set("bases", len(bs))
	r.Set("decorations", len(decos))
	par.For(len(bs), r.Expired, func(i int, j par.Journal) {
		b := bs[i]
		rs0, stage, err := drive.Compile(b.text, nil)
		if stage != "" {
			// a generated base whose references designate nothing (R1 agrees) is not a schema:
			// there is no verdict to preserve (such documents are C03's subject)
			if u, uerr := ref.NewUniverseD(b.text, "", nil, nil, b.draft); stage == "resolve" && (uerr != nil || u.Closure() != nil) {
				r.Add("bases_that_do_not_resolve", 1)
				return
			}
			r.Fail(b.text, map[string]any{"class": "base " + stage, "error": err.Error()})
			return
		}
		pool := pool
		if len(b.insts) > 0 {
			pool = append(append([]drive.Inst(nil), pool...), drive.MkPool(gen.Vals(b.insts...))...)
		}
		want := make([]bool, len(pool))
		for k, in := range pool {
			want[k], _ = drive.Verdict(rs0, in.Plain)
		}
		tree := decodeTree(b.text)
		n := 0
		// an unreferenced entry under a name that is used elsewhere in the document
		names := map[string]bool{}
		defNames(tree, names)
		mine := decos
		for _, name := range sortedK(names) {
			kw := "$defs"
			if b.draft == ref.D07 {
				kw = "definitions"
			}
			mine = append(mine[:len(mine):len(mine)], deco{k: kw, v: fmt.Sprintf(`{%q:false}`, name)}, deco{k: kw, v: fmt.Sprintf(`{%q:{"type":"string","minLength":100}}`, name)})
		}
		for _, ptr := range pointersOf(b.text, b.draft) {
			for _, d := range mine {
				if d.only07 && b.draft != ref.D07 {
					continue
				}
				text, ok := decorate(tree, ptr, d)
				if !ok {
					continue
				}
				key := fmt.Sprintf("%s + %q:%s at %q", b.text, d.k, d.v, ptr)
				if d.k2 != "" {
					key = fmt.Sprintf("%s + %q:%s,%q:%s,%q:%s at %q", b.text, d.k, d.v, d.k2, d.v2, d.k3, d.v3, ptr)
				}
				if r.OnlyKey != "" && r.OnlyKey != key {
					continue
				}
				n++
				j.Begin(key)
				// a refused document immediately before: Unmarshal must not remember it
				// (pooled scratch state that survives an error path would leak into this one)
				var poison jsonschema.Schema
				json.Unmarshal([]byte(`{"title":3,"minLength":5,"required":["zz"],"x-unknown":1,"items":{"maxItems":"3"}}`), &poison)
				rs, stage, err := drive.Compile(text, nil)
				if stage != "" {
					r.Fail(key, map[string]any{"class": "decorated document refused at " + stage, "error": err.Error(), "document": text})
					continue
				}
				for k, in := range pool {
					got, p := drive.Verdict(rs, in.Plain)
					if p != "" || got != want[k] {
						r.Fail(key, map[string]any{"class": "decoration changes the verdict", "instance": in.Text, "undecorated_valid": want[k], "decorated_valid": got, "panic": p, "document": text})
						break
					}
				}
				j.End()
			}
		}
		r.Eval(n * len(pool))
		r.NontrivialN(n)
		if i%97 == 0 {
			r.Sample(map[string]any{"base": b.text, "decorated_documents": n})
		}
	})
}
