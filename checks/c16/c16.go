// Package c16 decides C16: For/ForType is a deterministic, isolating function
// of type and options whose properties are exactly encoding/json's fields.
package c16

import (
	"encoding/json"
	"fmt"
	"math/big"
	"os"
	"os/exec"
	"reflect"
	"slices"
	"strings"
	"time"
	"verif/internal/envrun"

	"github.com/google/jsonschema-go/jsonschema"

	"verif/checks/c04"
	"verif/internal/ev"
	"verif/internal/gen"
	"verif/internal/par"
)

// schemaPtrs collects every *Schema reachable from s.
func schemaPtrs(s *jsonschema.Schema, out map[*jsonschema.Schema]bool) {
	if s == nil || out[s] {
		return
	}
	out[s] = true
	v := reflect.ValueOf(s).Elem()
	for i := 0; i < v.NumField(); i++ {
		f := v.Field(i)
		switch x := f.Interface().(type) {
		case *jsonschema.Schema:
			schemaPtrs(x, out)
		case []*jsonschema.Schema:
			for _, c := range x {
				schemaPtrs(c, out)
			}
		case map[string]*jsonschema.Schema:
			for _, c := range x {
				schemaPtrs(c, out)
			}
		}
	}
}

type optCase struct {
	name   string
	ignore bool
	ts     func() map[reflect.Type]*jsonschema.Schema
	marks  map[reflect.Type]string
}

func mark(m string) *jsonschema.Schema {
	// An override for an embedded struct may carry only "type" and "properties":
	// the mark therefore travels in the property names.
	return &jsonschema.Schema{Type: "object", Properties: map[string]*jsonschema.Schema{"zz_" + m: {Type: "integer"}, "aa_" + m: {Type: "string"}}}
}

var overrideTypes = map[string]reflect.Type{
	"Inner":       reflect.TypeOf(gen.Inner{}),
	"NamedStruct": reflect.TypeOf(gen.NamedStruct{}),
	"MyInt":       reflect.TypeOf(gen.MyInt(0)),
	"int":         reflect.TypeOf(0),
	"Base":        reflect.TypeOf(gen.Base{}),
	"Mid":         reflect.TypeOf(gen.Mid{}),
	"Time":        reflect.TypeOf(time.Time{}),
	"BigInt":      reflect.TypeOf(big.Int{}),
}

func options() []optCase {
	out := []optCase{{name: "nil"}, {name: "ignore", ignore: true}}
	for _, n := range []string{"Inner", "NamedStruct", "MyInt", "int", "Base", "Mid"} {
		n := n
		t := overrideTypes[n]
		for _, ig := range []bool{false, true} {
			out = append(out, optCase{name: fmt.Sprintf("TypeSchemas[%s] ignore=%v", n, ig), ignore: ig,
				ts: func() map[reflect.Type]*jsonschema.Schema {
					return map[reflect.Type]*jsonschema.Schema{t: mark("MARK-" + n)}
				},
				marks: map[reflect.Type]string{t: "MARK-" + n}})
		}
	}
	// overrides written with the Types list (spare capacity: an append into the caller's array would
	// show), and overrides of types that have a default translation
	for _, form := range []struct {
		name  string
		types []string
	}{{"Types=[object,string]", []string{"object", "string"}}, {"Types=[null,object]", []string{"null", "object"}}, {"Types=[object]", []string{"object"}}} {
		form := form
		for _, n := range []string{"NamedStruct", "Inner"} {
			n := n
			t := overrideTypes[n]
			out = append(out, optCase{name: fmt.Sprintf("TypeSchemas[%s] %s", n, form.name),
				ts: func() map[reflect.Type]*jsonschema.Schema {
					m := mark("MARK-" + n)
					m.Type = ""
					m.Types = append(make([]string, 0, 8), form.types...)
					return map[reflect.Type]*jsonschema.Schema{t: m}
				},
				marks: map[reflect.Type]string{t: "MARK-" + n}})
		}
	}
	for _, n := range []string{"Time", "BigInt"} {
		n := n
		t := overrideTypes[n]
		out = append(out, optCase{name: fmt.Sprintf("TypeSchemas[%s]", n),
			ts: func() map[reflect.Type]*jsonschema.Schema {
				return map[reflect.Type]*jsonschema.Schema{t: mark("MARK-" + n)}
			},
			marks: map[reflect.Type]string{t: "MARK-" + n}})
	}
	shared := func() map[reflect.Type]*jsonschema.Schema {
		s := mark("MARK-shared")
		return map[reflect.Type]*jsonschema.Schema{overrideTypes["Inner"]: s, overrideTypes["NamedStruct"]: s, overrideTypes["MyInt"]: s}
	}
	// an override that is not a tree itself: one subschema object used at two (three) positions; every
	// occurrence in the result is a copy of its own (the result is a tree that Resolve accepts)
	for _, n := range []string{"Inner", "NamedStruct", "MyInt"} {
		n := n
		t := overrideTypes[n]
		out = append(out, optCase{name: fmt.Sprintf("TypeSchemas[%s] override with one subschema used twice", n),
			ts: func() map[reflect.Type]*jsonschema.Schema {
				m := mark("MARK-" + n)
				m.Properties["aa_MARK-"+n] = m.Properties["zz_MARK-"+n]
				if n != "Inner" { // an override of an embedded struct may carry only type and properties
					m.AdditionalProperties = m.Properties["zz_MARK-"+n]
				}
				return map[reflect.Type]*jsonschema.Schema{t: m}
			},
			marks: map[reflect.Type]string{t: "MARK-" + n}})
	}
	out = append(out, optCase{name: "TypeSchemas shared *Schema", ts: shared,
		marks: map[reflect.Type]string{overrideTypes["Inner"]: "MARK-shared", overrideTypes["NamedStruct"]: "MARK-shared", overrideTypes["MyInt"]: "MARK-shared"}})
	return out
}

// occurrences counts how often an overridden type occurs as a non-embedded
// position in t (independent walk of the reflect.Type; embedded occurrences
// are merged into the parent and carry no own schema).
func occurrences(t reflect.Type, marks map[reflect.Type]string, seen map[reflect.Type]bool) int {
	for t.Kind() == reflect.Pointer {
		t = t.Elem()
	}
	if _, ok := marks[t]; ok {
		return 1
	}
	if seen[t] || gen.IsMarshalerType(t) {
		return 0
	}
	seen[t] = true
	defer delete(seen, t)
	n := 0
	switch t.Kind() {
	case reflect.Slice, reflect.Array, reflect.Map:
		n += occurrences(t.Elem(), marks, seen)
	case reflect.Struct:
		for _, f := range gen.JSONFields(t) {
			if !f.Embedded {
				n += occurrences(f.Type, marks, seen)
			}
		}
	}
	return n
}

func countMarks(s *jsonschema.Schema, marks map[reflect.Type]string) int {
	ps := map[*jsonschema.Schema]bool{}
	schemaPtrs(s, ps)
	ms := map[string]bool{}
	for _, m := range marks {
		ms[m] = true
	}
	n := 0
	for p := range ps {
		for m := range ms {
			if _, ok := p.Properties["zz_"+m]; ok {
				n++
			}
		}
	}
	return n
}

func usesEmbeddedOverride(t reflect.Type, marks map[reflect.Type]string, seen map[reflect.Type]bool) bool {
	for t.Kind() == reflect.Pointer || t.Kind() == reflect.Slice || t.Kind() == reflect.Array || t.Kind() == reflect.Map {
		t = t.Elem()
	}
	if t.Kind() != reflect.Struct || seen[t] || gen.IsMarshalerType(t) {
		return false
	}
	if _, ok := marks[t]; ok {
		return false
	}
	seen[t] = true
	defer delete(seen, t)
	for i := 0; i < t.NumField(); i++ {
		f := t.Field(i)
		ft := f.Type
		for ft.Kind() == reflect.Pointer {
			ft = ft.Elem()
		}
		if f.Anonymous {
			if _, ok := marks[ft]; ok {
				return true
			}
		}
		if usesEmbeddedOverride(f.Type, marks, seen) {
			return true
		}
	}
	return false
}

// shape checks clauses (4)-(6) of the property by a parallel walk of the type
// and the inferred schema.
// supported reports whether For can translate t at all (with IgnoreInvalidTypes a field of an
// unsupported type is dropped; a struct survives without its unsupported fields).
func supported(t reflect.Type, seen map[reflect.Type]bool) bool {
	for t.Kind() == reflect.Pointer {
		t = t.Elem()
	}
	if gen.IsMarshalerType(t) {
		return true
	}
	switch t.Kind() {
	case reflect.Func, reflect.Chan, reflect.Complex64, reflect.Complex128, reflect.UnsafePointer:
		return false
	case reflect.Slice, reflect.Array:
		return supported(t.Elem(), seen)
	case reflect.Map:
		return t.Key().Kind() == reflect.String && supported(t.Elem(), seen)
	}
	return true
}

// embedsOverride reports whether struct type t has an untagged anonymous field of an overridden type.
func embedsOverride(t reflect.Type, marks map[reflect.Type]string) bool {
	if len(marks) == 0 || t.Kind() != reflect.Struct {
		return false
	}
	for i := 0; i < t.NumField(); i++ {
		f := t.Field(i)
		ft := f.Type
		for ft.Kind() == reflect.Pointer {
			ft = ft.Elem()
		}
		if f.Anonymous {
			if _, ok := marks[ft]; ok {
				return true
			}
			if ft.Kind() == reflect.Struct && f.Tag.Get("json") == "" && embedsOverride(ft, marks) {
				return true
			}
		}
	}
	return false
}

type shapeCtx struct {
	nullMode bool
	marks    map[reflect.Type]string
	ignore   bool
}

func shape(t reflect.Type, s *jsonschema.Schema, path string, nullMode bool, report func(class, path, msg string), seen map[reflect.Type]bool) {
	shapeX(t, s, path, shapeCtx{nullMode: nullMode}, report, seen)
}

func shapeX(t reflect.Type, s *jsonschema.Schema, path string, cx shapeCtx, report func(class, path, msg string), seen map[reflect.Type]bool) {
	nullMode := cx.nullMode
	if s == nil {
		report("missing schema", path, t.String())
		return
	}
	ptr := false
	for t.Kind() == reflect.Pointer {
		ptr = true
		t = t.Elem()
	}
	types := s.Types
	if s.Type != "" {
		types = []string{s.Type}
	}
	if m, ok := cx.marks[t]; ok {
		// an overridden type: the supplied schema, plus null exactly when reached through a pointer
		if _, has := s.Properties["zz_"+m]; !has {
			report("override substitution", path, fmt.Sprintf("type %s is overridden but its position holds %v", t, keysOf(s.Properties)))
			return
		}
		nulls := 0
		for _, x := range types {
			if x == "null" {
				nulls++
			}
		}
		if !slices.Contains(types, "object") || nulls > 1 {
			report("override types", path, fmt.Sprintf("overridden type %s: schema types %v", t, types))
		}
		return
	}
	if gen.IsMarshalerType(t) {
		if !slices.Contains(types, "string") {
			report("marshaler type", path, fmt.Sprintf("type %s: schema types %v", t, types))
		}
		return
	}
	hasNull := slices.Contains(types, "null")
	if t.Kind() != reflect.Interface {
		wantNull := ptr || (t.Kind() == reflect.Slice && !nullMode)
		if wantNull != hasNull {
			report("null type", path, fmt.Sprintf("type %s (pointer=%v): schema types %v", t, ptr, types))
		}
	}
	if seen[t] {
		return
	}
	seen[t] = true
	defer delete(seen, t)
	switch t.Kind() {
	case reflect.Slice, reflect.Array:
		shapeX(t.Elem(), s.Items, path+"/items", cx, report, seen)
	case reflect.Map:
		shapeX(t.Elem(), s.AdditionalProperties, path+"/additionalProperties", cx, report, seen)
	case reflect.Struct:
		if embedsOverride(t, cx.marks) {
			return // judged by outside(): the golden tests pin sorted order and non-required there
		}
		all := gen.JSONFields(t)
		var fs []gen.JSONField
		var names, req []string
		for _, f := range all {
			if cx.ignore && !supported(f.Type, nil) {
				continue // dropped with IgnoreInvalidTypes
			}
			fs = append(fs, f)
		}
		for _, f := range fs {
			names = append(names, f.Name)
			if !f.OmitEmpty && !f.OmitZero {
				req = append(req, f.Name)
			}
		}
		var got []string
		for k := range s.Properties {
			got = append(got, k)
		}
		slices.Sort(got)
		sorted := slices.Clone(names)
		slices.Sort(sorted)
		if !slices.Equal(got, sorted) {
			report("property set", path, fmt.Sprintf("type %s: encoding/json emits %q, schema properties %q", t, names, got))
			return
		}
		if !slices.Equal(s.PropertyOrder, names) && !(len(names) == 0 && len(s.PropertyOrder) == 0) {
			report("property order", path, fmt.Sprintf("type %s: field order %q, PropertyOrder %q", t, names, s.PropertyOrder))
		}
		gr := slices.Clone(s.Required)
		slices.Sort(gr)
		wr := slices.Clone(req)
		slices.Sort(wr)
		if !slices.Equal(gr, wr) {
			report("required", path, fmt.Sprintf("type %s: want required %q, got %q", t, req, s.Required))
		}
		for _, f := range fs {
			if f.Embedded {
				continue
			}
			shapeX(f.Type, s.Properties[f.Name], path+"/properties/"+f.Name, cx, report, seen)
		}
	}
}

func Run(r *ev.Run) {
	if os.Getenv("VF_C16_ENVCHILD") == "" {
		// The JSONSCHEMAGODEBUG axis is read in init(): run the same exploration in
		// separate worker processes and merge their verdicts.
		for _, env := range []string{"typeschemasnull=1", "typeschemasnull=0"} {
			cmd := exec.Command(os.Args[0], os.Args[1:]...)
			cmd.Env = append(os.Environ(), "VF_CHILD=1", "VF_C16_ENVCHILD="+env, "JSONSCHEMAGODEBUG="+env, "VERIF_ROOT="+os.Getenv("VF_WORK")+"/c16env")
			os.MkdirAll(os.Getenv("VF_WORK")+"/c16env", 0o755)
			if kf, err := os.ReadFile(ev.Root + "/known_findings.json"); err == nil {
				os.WriteFile(os.Getenv("VF_WORK")+"/c16env/known_findings.json", kf, 0o644)
				exec.Command("cp", "-r", ev.Root+"/known", os.Getenv("VF_WORK")+"/c16env/").Run()
			}
			out, err := cmd.CombinedOutput()
			r.Set("env "+env, strings.TrimSpace(lastLine(string(out))))
			if os.Getenv("VERIF_EMIT_CASES") == "1" {
				for _, l := range strings.Split(string(out), "\n") {
					if strings.HasPrefix(l, "CASE ") {
						fmt.Println(l)
					}
				}
			}
			if err != nil {
				for _, l := range strings.Split(string(out), "\n") {
					if strings.HasPrefix(l, "  case: ") {
						r.Fail("JSONSCHEMAGODEBUG="+env+" "+strings.TrimPrefix(l, "  case: "), map[string]any{"class": "violation under JSONSCHEMAGODEBUG=" + env})
					}
				}
				if r.Violations() == 0 {
					r.Fail("JSONSCHEMAGODEBUG="+env, map[string]any{"class": "worker failed", "output": tail(string(out), 2000)})
				}
			}
		}
	}
	nullMode := os.Getenv("JSONSCHEMAGODEBUG") == "typeschemasnull=1"
	thorough := r.Tier == "thorough"
	ts := c04.Types(thorough)
	if os.Getenv("VF_C16_ENVCHILD") != "" && os.Getenv("VF_C16_ENVCHILD") != "skip" {
		// the setting only affects slices and pointers to overridden types: a thinner type set suffices
		ts = append(gen.Composites(3), gen.Catalog()...)
	}
	opts := options()
	r.Rule("G-type (C04's types plus recursive and unsupported-kind types) x options {nil, IgnoreInvalidTypes, TypeSchemas overriding each of 6 named types (incl. embedded ones) with a marked schema, with/without IgnoreInvalidTypes, the same with the override written as a Types list (3 forms, spare capacity), overrides of time.Time and big.Int, one *Schema shared by three entries, overrides in which one subschema object occurs at two or three positions} x JSONSCHEMAGODEBUG in {unset, typeschemasnull=1, typeschemasnull=0} (separate worker processes). Per call: (1) two calls give deep-equal trees and identical bytes; (2) the Schema pointer sets of both results and of the supplied TypeSchemas are pairwise disjoint; (3) Resolve accepts the result; (4) properties = the fields encoding/json emits (independent re-implementation of its field selection, itself checked against json.Marshal of a fully populated value), PropertyOrder = field order; (5) required = fields with neither omitempty nor omitzero; (6) pointer-ness (and slices) add null; (7) the override mark appears once per occurrence, at exactly the positions of the overridden type, with null added exactly once for pointer uses; clauses 4-6 are checked under every option set (with IgnoreInvalidTypes: minus the fields of unsupported type); (8) recursive types: error; (9) unsupported kinds: error, or dropped with IgnoreInvalidTypes. (11) after the caller has overwritten everything reachable from one result, a further call with the same arguments returns the original value (option sets without TypeSchemas); (10) the generic For[T] agrees with ForType on 14 types x every option set, and options never linger into a later call. Non-trivial = every (type, options) call")
	r.Assume("encoding/json is the oracle for the field set; the independent field-selection model must reproduce json.Marshal's keys on every type (else harness error)",
		"where an embedded struct type is overridden through TypeSchemas the golden tests pin sorted order and non-required: clauses 4-5 are skipped for such structs")
	r.Set("types", len(ts))
	r.Set("option_sets", len(opts))
	par.For(len(ts)*len(opts), r.Expired, func(idx int, j par.Journal) {
		t, o := ts[idx/len(opts)], opts[idx%len(opts)]
		key := "ForType(" + t.Desc + ", " + o.name + ")"
		if r.OnlyKey != "" && !strings.HasPrefix(r.OnlyKey, key) {
			return
		}
		j.Begin(key)
		defer j.End()
		mkOpts := func() *jsonschema.ForOptions {
			fo := &jsonschema.ForOptions{IgnoreInvalidTypes: o.ignore}
			if o.ts != nil {
				fo.TypeSchemas = o.ts()
			}
			return fo
		}
		o1, o2 := mkOpts(), mkOpts()
		var s1, s2 *jsonschema.Schema
		var e1, e2 error
		if p := par.Call(func() {
			s1, e1 = jsonschema.ForType(t.Type, o1)
			s2, e2 = jsonschema.ForType(t.Type, o1) // same options object, second call
			_ = o2
		}); p != "" {
			r.Fail(key, map[string]any{"class": "panic", "panic": p})
			return
		}
		r.Eval(1)
		r.NontrivialN(1)
		fail := func(class, msg string) {
			r.Fail(key+" ["+class+"]", map[string]any{"class": class, "detail": msg})
		}
		if (e1 == nil) != (e2 == nil) {
			fail("nondeterministic error", fmt.Sprint(e1, " / ", e2))
			return
		}
		overridden := false
		for ot := range o.marks {
			tt := t.Type
			for tt.Kind() == reflect.Pointer {
				tt = tt.Elem()
			}
			if tt == ot {
				overridden = true
			}
		}
		if t.Recursive {
			if e1 == nil && !overridden {
				fail("recursive type accepted", "no error for a recursive type")
			}
			return
		}
		if t.Unsupported {
			if !o.ignore && e1 == nil {
				fail("unsupported kind accepted", "no error without IgnoreInvalidTypes")
			}
			if o.ignore && e1 != nil {
				fail("unsupported kind not dropped", e1.Error())
			}
			if e1 != nil || s1 == nil {
				return
			}
		} else if e1 != nil {
			// embedded-override restrictions are documented errors
			if o.ts != nil && strings.Contains(e1.Error(), "embedded") {
				r.Either()
				return
			}
			fail("error for a supported type", e1.Error())
			return
		}
		if s1 == nil || s2 == nil {
			if s1 != s2 {
				fail("nondeterministic nil", "")
			}
			return
		}
		b1, m1 := json.Marshal(s1)
		b2, m2 := json.Marshal(s2)
		if m1 != nil || m2 != nil {
			fail("result does not marshal", fmt.Sprint(m1, m2))
			return
		}
		if string(b1) != string(b2) || !reflect.DeepEqual(s1, s2) {
			fail("two calls differ", string(b1)+" vs "+string(b2))
		}
		p1, p2, pt := map[*jsonschema.Schema]bool{}, map[*jsonschema.Schema]bool{}, map[*jsonschema.Schema]bool{}
		schemaPtrs(s1, p1)
		schemaPtrs(s2, p2)
		for _, x := range o1.TypeSchemas {
			schemaPtrs(x, pt)
		}
		for p := range p1 {
			if p2[p] {
				fail("results share a Schema object", string(b1))
				break
			}
			if pt[p] {
				fail("result shares a Schema object with TypeSchemas", string(b1))
				break
			}
		}
		if o.ts != nil {
			// the supplied schemas must be left untouched
			fresh := o.ts()
			for k, x := range o1.TypeSchemas {
				if !reflect.DeepEqual(x, fresh[k]) {
					fail("TypeSchemas entry modified", k.String())
				}
			}
		}
		if _, err := s1.Resolve(nil); err != nil {
			fail("Resolve rejects the result", err.Error())
		}
		// the caller owns the result: after it has overwritten everything reachable from the second
		// result (through every pointer, slice and map), a further call must still return the first value
		// (without TypeSchemas: a supplied schema legitimately shares its non-schema slices with
		// the results, as documented for CloneSchemas, so editing a result can edit the argument)
		if o.ts == nil {
			scribble(reflect.ValueOf(s2), map[uintptr]bool{})
			var s3 *jsonschema.Schema
			var e3 error
			if p := par.Call(func() { s3, e3 = jsonschema.ForType(t.Type, mkOpts()) }); p != "" {
				fail("panic after the caller edited an earlier result", p)
			} else if b3, _ := json.Marshal(s3); e3 != nil || string(b3) != string(b1) {
				fail("a later call sees the caller's edits of an earlier result", fmt.Sprintf("first %s, after edits %s (%v)", b1, b3, e3))
			}
		}
		if o.marks != nil {
			want := occurrences(t.Type, o.marks, map[reflect.Type]bool{})
			got := countMarks(s1, o.marks)
			if want != got && !usesEmbeddedOverride(t.Type, o.marks, map[reflect.Type]bool{}) {
				fail("override substitution", fmt.Sprintf("type occurs %d times, mark found %d times: %s", want, got, b1))
			}
			// with an overridden embedded struct: every field that does not come from the
			// overridden type must still be a property (the override only replaces its members)
			if usesEmbeddedOverride(t.Type, o.marks, map[reflect.Type]bool{}) {
				outside(t.Type, s1, o.marks, "", func(path, msg string) { fail("property dropped next to an embedded override", path+": "+msg) }, map[reflect.Type]bool{})
			}
			// spare capacity of a supplied Types list must stay untouched
			for _, x := range o1.TypeSchemas {
				if cap(x.Types) > len(x.Types) {
					for _, extra := range x.Types[len(x.Types):cap(x.Types)] {
						if extra != "" {
							fail("TypeSchemas entry modified", "written behind the end of its Types list: "+extra)
						}
					}
				}
			}
		}
		if !supported(t.Type, nil) {
			return // dropped as a whole (s1 == nil was handled above) or an error
		}
		shapeX(t.Type, s1, "", shapeCtx{nullMode: nullMode, marks: o.marks, ignore: o.ignore}, func(class, path, msg string) { fail(class, path+": "+msg) }, map[reflect.Type]bool{})
		if idx%4001 == 0 {
			r.Sample(map[string]any{"call": key, "schema": string(b1)})
		}
	})
	// the generic entry point must agree with ForType on result and error
	genericAgree(r)
	// self-check of the field-selection model against json.Marshal
	for _, t := range ts {
		tt := t.Type
		if tt.Kind() != reflect.Struct || !c04.InDomain(t) || gen.IsMarshalerType(tt) {
			continue
		}
		keys, ok := gen.KeysOfMarshal(gen.FullyPopulated(tt))
		if !ok {
			continue
		}
		var names []string
		for _, f := range gen.JSONFields(tt) {
			if f.OmitEmpty && f.Type.Kind() == reflect.Array && f.Type.Len() == 0 {
				continue // a zero-length array is always empty: json.Marshal can never show the field
			}
			names = append(names, f.Name)
		}
		if !slices.Equal(keys, names) {
			fmt.Fprintf(os.Stderr, "HARNESS-ERROR c16: field model %q disagrees with json.Marshal %q on %s\n", names, keys, t.Desc)
			os.Exit(2)
		}
	}
	if r.OnlyKey == "" || true {
		envrun.Explore(r, "ENV", "c16env", "env", 16)
	}
}

func genericOne[T any](r *ev.Run, name string, opts []optCase) {
	for _, o := range opts {
		mk := func() *jsonschema.ForOptions {
			fo := &jsonschema.ForOptions{IgnoreInvalidTypes: o.ignore}
			if o.ts != nil {
				fo.TypeSchemas = o.ts()
			}
			return fo
		}
		key := "For[" + name + "] vs ForType, " + o.name
		if r.OnlyKey != "" && r.OnlyKey != key {
			continue
		}
		var a, b, c *jsonschema.Schema
		var ea, eb, ec error
		if p := par.Call(func() {
			a, ea = jsonschema.For[T](mk())
			b, eb = jsonschema.ForType(reflect.TypeFor[T](), mk())
			c, ec = jsonschema.For[T](nil) // the options of the first call must not linger
		}); p != "" {
			r.Fail(key, map[string]any{"class": "panic", "panic": p})
			continue
		}
		r.Eval(1)
		r.NontrivialN(1)
		ja, _ := json.Marshal(a)
		jb, _ := json.Marshal(b)
		if (ea == nil) != (eb == nil) || string(ja) != string(jb) {
			r.Fail(key, map[string]any{"class": "For[T] and ForType disagree", "for": string(ja), "fortype": string(jb), "errors": fmt.Sprint(ea, " / ", eb)})
		}
		d, ed := jsonschema.ForType(reflect.TypeFor[T](), nil)
		jc, _ := json.Marshal(c)
		jd, _ := json.Marshal(d)
		if (ec == nil) != (ed == nil) || string(jc) != string(jd) {
			r.Fail(key+" [then nil options]", map[string]any{"class": "options of an earlier call linger", "for_nil": string(jc), "fortype_nil": string(jd)})
		}
	}
}

func genericAgree(r *ev.Run) {
	opts := options()
	genericOne[gen.Twice](r, "gen.Twice", opts)
	genericOne[gen.Inner](r, "gen.Inner", opts)
	genericOne[*gen.Inner](r, "*gen.Inner", opts)
	genericOne[[]gen.EmbVal](r, "[]gen.EmbVal", opts)
	genericOne[map[string]*gen.EmbPtr](r, "map[string]*gen.EmbPtr", opts)
	genericOne[gen.Marsh](r, "gen.Marsh", opts)
	genericOne[gen.TopOver](r, "gen.TopOver", opts)
	genericOne[gen.RecPtr](r, "gen.RecPtr", opts)
	genericOne[gen.BadTagged](r, "gen.BadTagged", opts)
	genericOne[gen.BadFunc](r, "gen.BadFunc", opts)
	genericOne[gen.Ptrs](r, "gen.Ptrs", opts)
	genericOne[int](r, "int", opts)
	genericOne[time.Time](r, "time.Time", opts)
	genericOne[any](r, "any", opts)
}

// scribble overwrites everything reachable from v in place.
func scribble(v reflect.Value, seen map[uintptr]bool) {
	switch v.Kind() {
	case reflect.Pointer:
		if v.IsNil() || seen[v.Pointer()] {
			return
		}
		seen[v.Pointer()] = true
		scribble(v.Elem(), seen)
	case reflect.Interface:
		if !v.IsNil() && v.Elem().Kind() == reflect.Pointer {
			scribble(v.Elem(), seen)
		}
	case reflect.Struct:
		for i := 0; i < v.NumField(); i++ {
			if v.Type().Field(i).IsExported() {
				scribble(v.Field(i), seen)
			}
		}
	case reflect.Slice:
		for i := 0; i < v.Len(); i++ {
			scribble(v.Index(i), seen)
		}
	case reflect.Map:
		for _, k := range v.MapKeys() {
			e := v.MapIndex(k)
			scribble(e, seen)
			if e.Kind() != reflect.Pointer && e.Kind() != reflect.Interface && e.Kind() != reflect.Slice && e.Kind() != reflect.Map {
				n := reflect.New(e.Type()).Elem()
				n.Set(e)
				scribble(n, seen)
				v.SetMapIndex(k, n)
			}
		}
	case reflect.String:
		if v.CanSet() {
			v.SetString(v.String() + "~edited")
		}
	case reflect.Bool:
		if v.CanSet() {
			v.SetBool(!v.Bool())
		}
	case reflect.Int, reflect.Int64:
		if v.CanSet() {
			v.SetInt(v.Int() + 12345)
		}
	case reflect.Float64:
		if v.CanSet() {
			v.SetFloat(v.Float() + 12345.5)
		}
	}
}

func lastLine(s string) string {
	ls := strings.Split(strings.TrimSpace(s), "\n")
	return ls[len(ls)-1]
}

func tail(s string, n int) string {
	if len(s) > n {
		return s[len(s)-n:]
	}
	return s
}

// outside checks, for struct types that embed an overridden type, that the
// fields not coming from the overridden type are present as properties.
func outside(t reflect.Type, s *jsonschema.Schema, marks map[reflect.Type]string, path string, report func(path, msg string), seen map[reflect.Type]bool) {
	for t.Kind() == reflect.Pointer {
		t = t.Elem()
	}
	if s == nil || seen[t] || gen.IsMarshalerType(t) {
		return
	}
	if _, ok := marks[t]; ok {
		return
	}
	seen[t] = true
	defer delete(seen, t)
	switch t.Kind() {
	case reflect.Slice, reflect.Array:
		outside(t.Elem(), s.Items, marks, path+"/items", report, seen)
	case reflect.Map:
		outside(t.Elem(), s.AdditionalProperties, marks, path+"/additionalProperties", report, seen)
	case reflect.Struct:
		// the members of an overridden embedded type are replaced by the override's properties
		var walkEmb func(st reflect.Type)
		walkEmb = func(st reflect.Type) {
			for i := 0; i < st.NumField(); i++ {
				sf := st.Field(i)
				ft := sf.Type
				for ft.Kind() == reflect.Pointer {
					ft = ft.Elem()
				}
				if !sf.Anonymous || ft.Kind() != reflect.Struct || sf.Tag.Get("json") != "" {
					continue
				}
				if m, ok := marks[ft]; ok {
					for _, k := range []string{"zz_" + m, "aa_" + m} {
						if _, has := s.Properties[k]; !has {
							report(path, fmt.Sprintf("type %s embeds overridden %s but property %q of the override is missing (properties: %v)", t, ft, k, keysOf(s.Properties)))
						}
					}
					continue
				}
				walkEmb(ft)
			}
		}
		walkEmb(t)
		insideNames := map[string][]int{}
		outsideNames := map[string]bool{}
		for _, f := range gen.JSONFields(t) {
			// does the field come from inside an overridden embedded type?
			inside := false
			cur := t
			for _, ix := range f.Index[:len(f.Index)-1] {
				sf := cur.Field(ix)
				ft := sf.Type
				for ft.Kind() == reflect.Pointer {
					ft = ft.Elem()
				}
				if _, ok := marks[ft]; ok && sf.Anonymous {
					inside = true
				}
				cur = ft
			}
			if inside {
				insideNames[f.Name] = f.Index
				continue
			}
			outsideNames[f.Name] = true
			ps, ok := s.Properties[f.Name]
			if !ok {
				report(path, fmt.Sprintf("type %s: field %q (index %v) is emitted by encoding/json and does not come from an overridden type, but is not a property (properties: %v)", t, f.Name, f.Index, keysOf(s.Properties)))
				continue
			}
			if !f.Embedded {
				outside(f.Type, ps, marks, path+"/properties/"+f.Name, report, seen)
			}
		}
		// nothing from inside an overridden embedded type may leak: its members are replaced by the
		// override's properties as a whole, however deep they were promoted from. (A name that some
		// field outside the overridden types also carries, dominant or not, is not judged.)
		anyOutside := map[string]bool{}
		var walkOut func(st reflect.Type, depth int)
		walkOut = func(st reflect.Type, depth int) {
			if depth > 6 {
				return
			}
			for i := 0; i < st.NumField(); i++ {
				sf := st.Field(i)
				ft := sf.Type
				for ft.Kind() == reflect.Pointer {
					ft = ft.Elem()
				}
				if sf.Anonymous && ft.Kind() == reflect.Struct && sf.Tag.Get("json") == "" {
					if _, ok := marks[ft]; !ok {
						walkOut(ft, depth+1)
					}
					continue
				}
				anyOutside[sf.Name] = true
				if n, _, _ := strings.Cut(sf.Tag.Get("json"), ","); n != "" {
					anyOutside[n] = true
				}
			}
		}
		walkOut(t, 0)
		for _, p := range keysOf(s.Properties) {
			ix, in := insideNames[p]
			if !in || outsideNames[p] || anyOutside[p] || strings.HasPrefix(p, "zz_") || strings.HasPrefix(p, "aa_") {
				continue
			}
			report(path, fmt.Sprintf("type %s: property %q comes from field index %v inside an embedded type that TypeSchemas overrides; the override replaces those members (properties: %v)", t, p, ix, keysOf(s.Properties)))
		}
		for _, p := range s.Required {
			if _, in := insideNames[p]; in && !outsideNames[p] && !anyOutside[p] {
				report(path, fmt.Sprintf("type %s: required lists %q, a field inside an embedded type that TypeSchemas overrides", t, p))
			}
		}
	}
}

func keysOf(m map[string]*jsonschema.Schema) []string {
	var ks []string
	for k := range m {
		ks = append(ks, k)
	}
	slices.Sort(ks)
	return ks
}
