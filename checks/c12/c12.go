// Package c12 decides C12: enum, const and uniqueItems decide by JSON equality.
package c12

import (
	"encoding/json"
	"fmt"
	"math"
	"strings"
	"verif/internal/envrun"

	"github.com/google/jsonschema-go/jsonschema"

	"verif/internal/drive"
	"verif/internal/ev"
	"verif/internal/gen"
	"verif/internal/par"
	"verif/internal/ref"
)

var enumPool = []string{`null`, `true`, `0`, `1`, `1.5`, `256`, `9007199254740992`, `9007199254740993`, `"a"`, `"1"`, `[1]`, `[1,2]`, `{"a":1}`, `{"a":null}`, `[]`, `{}`, `{"a":1,"b":2}`, `9223372036854775808`, `{"b":null}`, `{"b":1}`, `{"id":1,"parent":null}`, `{"id":1,"owner":"x"}`, `[null]`, `[{"a":null}]`, `[{"b":1}]`}

// Member is one element of the uniqueItems pool.
type Member struct {
	X     any
	Desc  string
	Canon string
}

type member = Member

// altRep gives a non-canonical but exact Go representation of a value.
func altRep(v *ref.Val, k int) (any, bool) {
	reps := gen.Reps(v, 3, 1, gen.RepOpts{})
	if len(reps) == 0 {
		return nil, false
	}
	// pick a deterministic "far" representation
	rp := reps[(len(reps)*(k+1)/3)%len(reps)]
	c, ok := ref.CanonGo(rp.V)
	if !ok || c != v.Canon() {
		return nil, false
	}
	return rp.V, true
}

// U is the uniqueItems element pool: equal-but-not-identical members included.
// UniquePool is the uniqueItems element pool.
func UniquePool() []Member {
	var out []member
	add := func(x any) {
		c, ok := ref.CanonGo(x)
		if !ok {
			panic("c12: out-of-domain pool element " + gen.Describe(x))
		}
		out = append(out, member{X: x, Desc: gen.Describe(x), Canon: c})
	}
	add(float64(1))
	add(json.Number("1.0"))
	add(json.Number("1e0"))
	add(int8(1))
	add(float64(2))
	add("1")
	add(map[string]any{"a": float64(1), "b": float64(2)})
	add(map[string]int{"b": 2, "a": 1})
	add([]any{float64(1)})
	add([]int{1})
	add([1]int{1})
	add([1]any{float64(1)})
	add([1]any{json.Number("1.0")})
	add([2]any{float64(1), nil})
	add([2]any{int8(1), (*int)(nil)})
	add("")
	add([]any{})
	add(map[string]any{})
	add(nil)
	add(false)
	add(float64(0))
	add(float64(256))
	add(json.Number("256"))
	add(uint64(1) << 63)
	add(float64(1 << 63))
	add((*int)(nil))
	add(map[gen.MyKey]any{"a": int64(1), "b": json.Number("2")})
	add(float32(1.5))
	add(json.Number("15e-1"))
	add(json.Number("1e400"))
	add(json.Number("10e399"))
	add(json.Number("1e-400"))
	add(math.Copysign(0, -1)) // the float64 negative zero is the number 0
	return out
}

func Run(r *ev.Run) {
	thorough := r.Tier == "thorough"
	r.Rule("(i) enum lists of length 0..2 (thorough 3, the third member over every third pool value) and const over a 25-value pool, built by Unmarshal and as Go literals in canonical and in two alternative exact representations, x every pool value in every G-rep representation (<=1 deviating node): pass iff R2-equal to a member; " +
		"(ii) uniqueItems on every []any of length 0..3 (thorough 4; quick length 4 over a 12-element sub-pool) over a 25-element pool with equal-but-not-identical members (1 / json.Number 1.0 / 1e0 / int8(1); permuted and differently typed maps; []any / []int / [1]int; 2^63 as uint64 and float64; 256 as float64 and json.Number; nil and nil pointer): pass iff no two elements are R2-equal. Every call draws a fresh hash seed; each array is validated 3 times; (iii) uniqueItems / enum / const below applicators that do not abort the call (contains, anyOf, oneOf, not, if) x every pair and selected triples of 9 small arrays in one instance, compared with R1; (iv) uniqueItems beside items / prefixItems / contains / additionalItems / a draft-07 $ref with siblings that type (some of) the items x 22 arrays, compared with R1; (v) in the instrumented build: equal wide objects (9 and 12 members) under every map order with <=3 deviations. Non-trivial = every case (distinct by construction)")
	r.Assume("R2 canonical equality is the oracle; the hash-family exploration of the seed quantifier runs in the instrumented build (C12 env part)")
	vals := gen.Vals(enumPool...)
	// instances in every representation
	type inst struct {
		x     any
		desc  string
		canon string
	}
	var insts []inst
	full := 2
	if thorough {
		full = 3
	}
	for _, v := range vals {
		for _, rp := range gen.Reps(v, full, 1, gen.RepOpts{}) {
			if c, ok := ref.CanonGo(rp.V); ok && c == v.Canon() {
				insts = append(insts, inst{rp.V, rp.Desc, c})
			}
		}
	}
	r.Set("instances_in_representations", len(insts))
	// enum lists
	var lists [][]int
	lists = append(lists, []int{})
	maxLen := 2
	if thorough {
		maxLen = 3
	}
	var rec func(cur []int)
	rec = func(cur []int) {
		if len(cur) > 0 {
			lists = append(lists, append([]int(nil), cur...))
		}
		if len(cur) == maxLen {
			return
		}
		for i := range vals {
			if len(cur) == 2 && i%3 != 0 {
				continue // lists of three: the third member ranges over every third pool value
			}
			rec(append(cur, i))
		}
	}
	rec(nil)
	r.Set("enum_lists", len(lists))
	type variant struct {
		name string
		mk   func(l []int) (*jsonschema.Schema, string, bool)
	}
	variants := []variant{
		{"unmarshal", func(l []int) (*jsonschema.Schema, string, bool) {
			var ts []string
			for _, i := range l {
				ts = append(ts, vals[i].JSON())
			}
			text := `{"enum":[` + strings.Join(ts, ",") + `]}`
			var s jsonschema.Schema
			if err := json.Unmarshal([]byte(text), &s); err != nil {
				return nil, text, false
			}
			return &s, text, true
		}},
	}
	for k := 0; k < 2; k++ {
		k := k
		variants = append(variants, variant{fmt.Sprintf("literal-alt%d", k), func(l []int) (*jsonschema.Schema, string, bool) {
			e := []any{}
			var ds []string
			for _, i := range l {
				x, ok := altRep(vals[i], k+i)
				if !ok {
					return nil, "", false
				}
				e = append(e, x)
				ds = append(ds, gen.Describe(x))
			}
			return &jsonschema.Schema{Enum: e}, "Schema{Enum: []any{" + strings.Join(ds, ", ") + "}}", true
		}})
	}
	par.For(len(lists)*len(variants), r.Expired, func(idx int, j par.Journal) {
		l, vr := lists[idx/len(variants)], variants[idx%len(variants)]
		// 2^53+1 is not exact in float64: the Unmarshal variant cannot carry it
		if vr.name == "unmarshal" {
			for _, i := range l {
				if _, exact := vals[i].N, true; vals[i].K == ref.Num {
					if _, ex := vals[i].N.Float64(); !ex {
						exact = false
						_ = exact
						return
					}
				}
			}
		}
		s, desc, ok := vr.mk(l)
		if !ok {
			return
		}
		var rs *jsonschema.Resolved
		var rerr error
		if p := par.Call(func() { rs, rerr = s.Resolve(nil) }); p != "" || rerr != nil {
			r.Fail("enum "+desc, map[string]any{"class": "resolve", "error": fmt.Sprint(rerr), "panic": p})
			return
		}
		members := map[string]bool{}
		for _, i := range l {
			members[vals[i].Canon()] = true
		}
		for _, in := range insts {
			key := "enum " + desc + " ⊢ " + in.desc
			if r.OnlyKey != "" && r.OnlyKey != key {
				continue
			}
			got, p := drive.Verdict(rs, in.x)
			want := members[in.canon]
			if p != "" || got != want {
				r.Fail(key, map[string]any{"class": "enum", "want_valid": want, "valid": got, "panic": p})
			}
		}
		r.Eval(len(insts))
		r.NontrivialN(len(insts))
		// const = single-member list
		if len(l) == 1 && vr.name != "unmarshal" {
			x, _ := altRep(vals[l[0]], idx)
			cs := &jsonschema.Schema{Const: &x}
			crs, err := cs.Resolve(nil)
			if err != nil {
				r.Fail("const "+gen.Describe(x), map[string]any{"class": "resolve", "error": err.Error()})
				return
			}
			for _, in := range insts {
				key := "const " + gen.Describe(x) + " ⊢ " + in.desc
				if r.OnlyKey != "" && r.OnlyKey != key {
					continue
				}
				got, p := drive.Verdict(crs, in.x)
				want := vals[l[0]].Canon() == in.canon
				if p != "" || got != want {
					r.Fail(key, map[string]any{"class": "const", "want_valid": want, "valid": got, "panic": p})
				}
			}
			r.Eval(len(insts))
			r.NontrivialN(len(insts))
		}
		if idx%211 == 0 {
			r.Sample(map[string]any{"schema": desc, "variant": vr.name, "instances": len(insts)})
		}
	})

	// (i') enum/const members that share a backing array with the instance
	{
		all := []any{float64(1), float64(2), float64(3)}
		cands := []any{all, all[:2], all[:1], all[:0], all[1:], map[string]any{"k": all}, map[string]any{"k": all[:2]}, []any{all, all[:2]}, []any{all[:2], all}}
		for _, m := range cands {
			m := m
			for _, sc := range []*jsonschema.Schema{{Const: &m}, {Enum: []any{"z", m}}} {
				rs, err := sc.Resolve(nil)
				if err != nil {
					panic(err)
				}
				mc, _ := ref.CanonGo(m)
				for _, in := range cands {
					ic, _ := ref.CanonGo(in)
					kind := "const"
					if sc.Enum != nil {
						kind = "enum"
					}
					key := kind + " (aliased backing array) " + gen.Describe(m) + " ⊢ " + gen.Describe(in)
					got, p := drive.Verdict(rs, in)
					r.Eval(1)
					r.NontrivialN(1)
					if p != "" || got != (mc == ic) {
						r.Fail(key, map[string]any{"class": "aliased", "want_valid": mc == ic, "valid": got, "panic": p})
					}
				}
			}
		}
	}

	// (ii) uniqueItems
	pool := UniquePool()
	us := &jsonschema.Schema{UniqueItems: true}
	urs, err := us.Resolve(nil)
	if err != nil {
		panic(err)
	}
	n := len(pool)
	maxU := 3
	if thorough {
		maxU = 4
	}
	var arrays [][]int
	var recU func(cur []int, lim, width int)
	recU = func(cur []int, lim, width int) {
		arrays = append(arrays, append([]int(nil), cur...))
		if len(cur) == lim {
			return
		}
		for i := 0; i < width; i++ {
			recU(append(cur, i), lim, width)
		}
	}
	recU(nil, maxU, n)
	if !thorough {
		// length 4 over the first 12 elements
		var four [][]int
		save := arrays
		arrays = nil
		recU(nil, 4, 12)
		for _, a := range arrays {
			if len(a) == 4 {
				four = append(four, a)
			}
		}
		arrays = append(save, four...)
	}
	r.Set("unique_arrays", len(arrays))
	r.Set("unique_pool", n)
	par.For(len(arrays), r.Expired, func(i int, j par.Journal) {
		a := arrays[i]
		xs := make([]any, len(a))
		ds := make([]string, len(a))
		want := true
		for k, e := range a {
			xs[k], ds[k] = pool[e].X, pool[e].Desc
			for q := 0; q < k; q++ {
				if pool[a[q]].Canon == pool[e].Canon {
					want = false
				}
			}
		}
		key := "uniqueItems []any{" + strings.Join(ds, ", ") + "}"
		if r.OnlyKey != "" && r.OnlyKey != key {
			return
		}
		for rep := 0; rep < 3; rep++ { // a fresh seed is drawn per call
			got, p := drive.Verdict(urs, xs)
			if p != "" || got != want {
				r.Fail(key, map[string]any{"class": "uniqueItems", "want_valid": want, "valid": got, "panic": p})
				break
			}
		}
		r.Eval(3)
		r.NontrivialN(1)
		if i%9973 == 0 {
			r.Sample(map[string]any{"call": key, "want_valid": want})
		}
	})
	nestedUnique(r)
	if r.OnlyKey == "" || true {
		envrun.Explore(r, "ENV", "c12hash", "env", 16)
	}
}

// nestedUnique: uniqueItems (and enum / const) below applicators that do not abort the call when
// the keyword fails, applied to several arrays in one Validate call: every array is judged on its
// own elements, whatever was found in the arrays judged before it.
func nestedUnique(r *ev.Run) {
	schemas := []string{
		`{"contains":{"uniqueItems":true}}`, `{"contains":{"uniqueItems":true},"minContains":2}`, `{"items":{"anyOf":[{"uniqueItems":true},{"maxItems":0}]}}`, `{"not":{"items":{"uniqueItems":true}}}`,
		`{"items":{"not":{"uniqueItems":true}}}`, `{"prefixItems":[{"not":{"uniqueItems":true}},{"uniqueItems":true}]}`, `{"properties":{"a":{"not":{"uniqueItems":true}},"b":{"uniqueItems":true},"c":{"uniqueItems":true}}}`,
		`{"items":{"oneOf":[{"uniqueItems":true},{"minItems":3}]}}`, `{"items":{"if":{"uniqueItems":true},"then":{"maxItems":2},"else":{"minItems":2}}}`, `{"items":{"uniqueItems":true,"items":{"uniqueItems":true}}}`,
		`{"contains":{"enum":[[1,1],[2,1]]},"items":{"not":{"const":[1,2]}}}`, `{"additionalProperties":{"anyOf":[{"uniqueItems":true},{"const":[1,1]}]}}`,
	}
	arrs := []string{`[1,1]`, `[2,1]`, `[1,2]`, `[1]`, `[]`, `[1,1.0]`, `["1",1]`, `[[1],[1]]`, `[{"a":1},{"a":1.0}]`}
	var insts []string
	for _, a := range arrs {
		for _, b := range arrs {
			insts = append(insts, `[`+a+`,`+b+`]`, `{"a":`+a+`,"b":`+b+`}`)
			if a == `[1,1]` || b == `[1]` {
				for _, c := range arrs[:4] {
					insts = append(insts, `[`+a+`,`+b+`,`+c+`]`, `{"a":`+a+`,"b":`+b+`,"c":`+c+`}`)
				}
			}
		}
	}
	pool := drive.MkPool(gen.Vals(insts...))
	// uniqueItems beside keywords that constrain (some of) the same items: the comparison is made on
	// every item and by JSON value, whatever the siblings say about the items' types
	const d7 = `"$schema":"http://json-schema.org/draft-07/schema#",`
	sibs := []string{
		`{"uniqueItems":true,"items":{"type":"string"}}`, `{"uniqueItems":true,"items":{"type":"string"},"prefixItems":[true,true]}`, `{"uniqueItems":true,"items":{"type":"string"},"prefixItems":[{"type":"number"}]}`,
		`{"uniqueItems":true,"items":{"type":"integer"}}`, `{"uniqueItems":true,"items":{"type":"number"},"prefixItems":[{"type":"string"}]}`, `{"uniqueItems":true,"contains":{"type":"string"}}`, `{"uniqueItems":true,"items":{"enum":["a","b",1,[1]]}}`,
		`{"uniqueItems":true,"items":{"type":["string","number"]}}`, `{"uniqueItems":true,"items":{"maxLength":1},"maxItems":3}`, `{"uniqueItems":true,"items":{"type":"object"},"prefixItems":[true]}`, `{"uniqueItems":true,"items":{"type":"array"}}`, `{"uniqueItems":true,"items":{"type":"string"},"unevaluatedItems":false}`,
		`{` + d7 + `"uniqueItems":true,"items":{"type":"string"}}`, `{` + d7 + `"uniqueItems":true,"items":{"$ref":"#/definitions/s","type":"string"},"definitions":{"s":{}}}`, `{` + d7 + `"uniqueItems":true,"items":[{"type":"string"}],"additionalItems":{"type":"number"}}`, `{` + d7 + `"uniqueItems":true,"items":[true,true],"additionalItems":{"type":"string"}}`,
	}
	sibPool := drive.MkPool(gen.Vals(`[]`, `["a"]`, `["a","a"]`, `["a","b"]`, `[1,2]`, `[1,1.0]`, `[1,2,"a"]`, `[1,2,"a","a"]`, `[1,"1"]`, `["1",1,1.0]`, `[[1],[2]]`, `[[1],[1]]`, `[{"a":1},{"a":2}]`, `[{"a":1},{"a":1.0}]`, `["a",1,2]`, `["a",1,1]`, `[1,"a","b"]`, `[1,"a","a"]`, `[true,false]`, `[null,null]`, `["a","b","a"]`, `["ab","a","b"]`))
	r.Set("unique_sibling_schemas", len(sibs))
	par.For(len(sibs), r.Expired, func(i int, j par.Journal) {
		drive.Against(r, j, sibs[i], sibPool, drive.Opt{Draft: ref.D2020, Prefix: "siblings: "})
	})
	r.Set("nested_unique_schemas", len(schemas))
	r.Set("nested_unique_instances", len(pool))
	par.For(len(schemas), r.Expired, func(i int, j par.Journal) {
		drive.Against(r, j, schemas[i], pool, drive.Opt{Draft: ref.D2020, Prefix: "nested: "})
	})
}
