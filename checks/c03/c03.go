// Package c03 decides C03: every $ref reaches the subschema RFC 3986 resolution
// designates; dangling references are errors; the Loader is asked at most once
// per document; cycles terminate; every subset of loader faults is explored.
package c03

import (
	"fmt"
	"os"
	"sort"
	"strings"
	"sync/atomic"
	"verif/checks/c14"

	"github.com/google/jsonschema-go/jsonschema"

	"verif/internal/drive"
	"verif/internal/ev"
	"verif/internal/gen"
	"verif/internal/par"
	"verif/internal/ref"
)

type ucase struct {
	u        *gen.Universe
	desc     string
	alias    bool
	faults   []string // failing URIs
	nilLoad  bool
	multiDoc bool
}

var states, transitions atomic.Int64

func Run(r *ev.Run) {
	thorough := r.Tier == "thorough"
	var cases []ucase
	gen.Worlds(thorough, func(u *gen.Universe, desc string) {
		cases = append(cases, ucase{u: u, desc: desc, nilLoad: len(cases)%2 == 0})
	})
	gen.WorldsSpecial(func(u *gen.Universe, desc string) {
		cases = append(cases, ucase{u: u, desc: desc, nilLoad: len(cases)%2 == 0})
	})
	gen.Worlds07(func(u *gen.Universe, desc string) {
		cases = append(cases, ucase{u: u, desc: desc, nilLoad: len(cases)%2 == 0 && len(u.Docs) == 0})
	})
	nWorlds := len(cases)
	nMulti := 0
	gen.MultiDoc(thorough, func(u *gen.Universe, desc string, alias bool) {
		nMulti++
		// canonical $ids are served by the loader too
		uris := make([]string, 0, len(u.Docs))
		for k, t := range u.Docs {
			uris = append(uris, k)
			if i := strings.Index(t, `"$id":"`); i == 1 {
				id := t[i+7:]
				id = id[:strings.Index(id, `"`)]
				if id != k {
					defer func(id, t string) { u.Docs[id] = t }(id, t)
				}
			}
		}
		sort.Strings(uris)
		n := len(uris)
		for mask := 0; mask < 1<<n; mask++ {
			var f []string
			for i := 0; i < n; i++ {
				if mask&(1<<i) != 0 {
					f = append(f, uris[i])
				}
			}
			cases = append(cases, ucase{u: u, desc: desc, alias: alias, faults: f, multiDoc: true})
		}
	})
	r.Rule("G-uri: (a) single-document worlds: root (BaseURI empty/absolute, 5 root $id forms) embedding resource e (8 $id forms) embedding f (4 forms), anchors and pointer targets each with a unique const marker, the probe $ref placed in the root resource or inside e, x every string of a 65-string ref alphabet, Loader nil / present; the same with base URIs, $ids and references whose paths contain sub-delims and percent-encoded reserved characters ('(', '!', '*', '[', %2F); the same worlds in draft-07 spelling (definitions, fragment-only $id anchors, resource $ids with and without a trailing empty fragment, 4 bases (one a directory, with a trailing slash) x 4 root ids x 5 embedded ids x 23 references x 2 placements); " +
		"(b) multi-document universes in 15 shapes (chains, diamonds, cycles, self-reference, retrieval-vs-canonical aliases, back-references to a root-embedded resource, references from a later document to a resource embedded in an earlier loaded one) x every fragment form per edge (valid forms on all edges, plus each single edge dangling: '#nope', '#/$defs/nope', into a document that is being loaded or is already cached) x $id mode per document x relative/absolute spelling x EVERY subset of failing loader URIs. " +
		"Per universe: Resolve errs iff R1 says some reference designates nothing or a needed document fails; verdict per marker instance equals R1; loader call log has no URI twice, no request for an already known URI and no request for the canonical $id of a document already loaded under its retrieval URI. Fault sequences across calls: every sequence of <=3 Resolve calls of six roots, each optionally with a transient Loader fault, through ONE caching Loader must reproduce the fresh-Loader results. states = distinct (universe, fault subset) configurations, transitions = loader answers + marker validations executed on the implementation. Non-trivial = reference resolved and marker verdicts compared, or error expected and observed")
	r.Assume("R1 + R3 (RFC 3986 §5.2 written from the RFC) designate the target; net/url is not used by the oracle",
		"the universe loader serves retrieval URIs and root $ids; references by canonical $id to a document not yet loaded are served by the loader")
	if n, bad, err := ref.CheckSuite("/repo"); err != nil || len(bad) > 0 {
		fmt.Fprintf(os.Stderr, "HARNESS-ERROR R1 fails the official suite: %v %v\n", err, bad)
		os.Exit(2)
	} else {
		r.Set("oracle_suite_cases_passed", n)
	}
	r.Set("worlds", nWorlds)
	r.Set("multidoc_universes", nMulti)
	r.Set("multidoc_configurations_with_fault_subsets", len(cases)-nWorlds)
	par.For(len(cases), r.Expired, func(i int, j par.Journal) {
		checkOne(r, j, &cases[i])
		if i%7919 == 0 {
			c := cases[i]
			r.Sample(map[string]any{"kind": c.u.Kind, "desc": c.desc, "root": c.u.Root, "base": c.u.Base, "loader_documents": c.u.Docs, "failing_uris": c.faults, "loader_nil": c.nilLoad})
		}
	})
	// fault sequences across calls: a Resolve that fails half-way (transient Loader fault), then
	// further Resolve calls through the same caching Loader must resolve every reference to the
	// same target as with a fresh Loader
	transitions.Add(int64(c14.LoaderHistories(r, thorough, "C03 ")))
	r.Set("states", states.Load())
	r.Set("transitions", transitions.Load())
	r.Set("traces_validated_against_impl", states.Load())
}

func checkOne(r *ev.Run, j par.Journal, c *ucase) {
	u := c.u
	key := c.u.Kind + ": " + c.desc
	if len(c.faults) > 0 {
		key += " faults=" + strings.Join(c.faults, ",")
	}
	if c.nilLoad {
		key += " loader=nil"
	}
	if r.OnlyKey != "" && !strings.HasPrefix(r.OnlyKey, key) {
		return
	}
	fail := map[string]bool{}
	for _, f := range c.faults {
		fail[f] = true
	}
	ru, err := ref.NewUniverseD(u.Root, u.Base, u.Docs, fail, ref.D2020)
	if err != nil {
		r.Add("oracle_rejects", 1)
		return
	}
	wantErr := ru.Closure()
	states.Add(1)
	j.Begin(key)
	defer j.End()
	ml := &drive.MapLoader{Docs: u.Docs, Fail: fail}
	opts := &jsonschema.ResolveOptions{BaseURI: u.Base}
	if !c.nilLoad {
		opts.Loader = ml.Load
	}
	rs, stage, cerr := drive.Compile(u.Root, opts)
	r.Eval(1)
	transitions.Add(int64(len(ml.Log)))
	detail := func(m map[string]any) map[string]any {
		m["root"], m["base"], m["docs"], m["faults"] = u.Root, u.Base, u.Docs, c.faults
		return m
	}
	if stage == "panic" {
		r.Fail(key, detail(map[string]any{"class": "panic", "panic": cerr.Error()}))
		return
	}
	if stage == "unmarshal" {
		r.Fail(key, detail(map[string]any{"class": "unmarshal", "error": cerr.Error()}))
		return
	}
	// E3: loader call log
	seen := map[string]bool{}
	knownID := map[string]string{} // root $id of a document already served -> the URI it was served under
	for _, q := range ml.Log {
		if via, ok := knownID[q]; ok && via != q {
			r.Fail(key+" [loader]", detail(map[string]any{"class": "loader asked for a document it already has, under its canonical $id", "uri": q, "already_loaded_from": via, "log": ml.Log}))
			break
		}
		if t, ok := u.Docs[q]; ok && !fail[q] {
			if i := strings.Index(t, `"$id":"`); i == 1 {
				id := t[i+7:]
				id = id[:strings.Index(id, `"`)]
				if _, dup := knownID[id]; !dup {
					knownID[id] = q
				}
			}
		}
		if seen[q] {
			r.Fail(key+" [loader]", detail(map[string]any{"class": "loader asked twice", "uri": q, "log": ml.Log}))
			break
		}
		seen[q] = true
		if q == u.Base {
			r.Fail(key+" [loader]", detail(map[string]any{"class": "loader asked for the root document", "uri": q, "log": ml.Log}))
			break
		}
	}
	if (stage == "resolve") != (wantErr != nil) {
		// documented restriction: without an absolute base, relative references are not supported
		if u.Base == "" && !strings.Contains(u.Root, `"$id":"http`) && !strings.Contains(u.Root, `"$id":"urn`) {
			r.Either()
			return
		}
		if u.Kind == "world-urnrel" {
			r.Either()
			return
		}
		m := map[string]any{"class": "resolve outcome", "impl_error": fmt.Sprint(cerr), "oracle_error": fmt.Sprint(wantErr)}
		r.Fail(key, detail(m))
		return
	}
	r.NontrivialN(1)
	if wantErr != nil || u.Kind == "world-urnrel" {
		return
	}
	if !c.alias && len(c.faults) == 0 && c.multiDoc {
		// without aliases the requested set is exactly the needed set
		need := map[string]bool{}
		for _, q := range ru.Requests {
			need[q] = true
		}
		for q := range need {
			if !seen[q] {
				r.Fail(key+" [loader]", detail(map[string]any{"class": "needed document never requested", "uri": q, "log": ml.Log}))
			}
		}
		for q := range seen {
			if !need[q] {
				r.Fail(key+" [loader]", detail(map[string]any{"class": "unneeded document requested", "uri": q, "log": ml.Log}))
			}
		}
	}
	for _, it := range u.Insts {
		v := ref.MustParse(it)
		want := ru.Validate(v)
		if want.Err != nil || want.Loop || want.Undefined {
			r.Add("oracle_no_opinion", 1)
			continue
		}
		got, p := drive.Verdict(rs, v.Plain())
		transitions.Add(1)
		r.Eval(1)
		k := key + " ⊢ " + it
		if r.OnlyKey != "" && r.OnlyKey != k {
			continue
		}
		if p != "" {
			r.Fail(k, detail(map[string]any{"class": "panic", "panic": p}))
		} else if got != want.Valid {
			r.Fail(k, detail(map[string]any{"class": "verdict", "instance": it, "impl_valid": got, "spec_valid": want.Valid}))
		}
	}
}
