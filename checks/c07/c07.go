// Package c07 decides C07: unevaluatedProperties/unevaluatedItems see exactly
// what adjacent keywords and successful in-place applicators evaluated.
package c07

import (
	"fmt"
	"os"
	"strings"

	"verif/checks/c01"
	"verif/internal/drive"
	"verif/internal/ev"
	"verif/internal/gen"
	"verif/internal/par"
	"verif/internal/ref"
)

// Sets returns the two G-uneval schema sets with their instance pools.
func Sets(thorough bool) (props, items *gen.Set, objs, arrs []drive.Inst) {
	props = gen.Uneval(true, thorough)
	items = gen.Uneval(false, thorough)
	objs = drive.MkPool(gen.Vals(gen.UnevalObjects()...))
	arrs = drive.MkPool(gen.Vals(gen.UnevalArrays()...))
	return
}

func Run(r *ev.Run) {
	thorough := r.Tier == "thorough"
	props, items, objs, arrs := Sets(thorough)
	r.Rule("G-uneval: combinator trees (allOf/anyOf/oneOf/not/if-then-else subsets/dependentSchemas/$ref/$dynamicRef, depth<=2, thorough 3) over evaluating leaves, next to unevaluatedProperties / unevaluatedItems in {false,{type:integer},true}, plus cousin placements and hand-written shapes that evaluate at child locations or through $ref/$dynamicRef (static-acting, and dynamic with the target in another resource); evaluating leaves in a Loader document with unevaluated* in the referring root; each also (quick: every 3rd) as a Loader document referred to by a root without unevaluated* keywords; " +
		"x every object over keys {a,b,c} with values {1,\"x\"} (+3 nested) / every array of length<=3 over {1,\"x\"} (+2), each also carried by Go arrays ([n]any) at every depth; each (schema, instance) pair is compared with R1's annotation semantics; non-trivial = R1 evaluated a keyword applicable to the instance type")
	r.Assume("R1's annotation semantics follow core §7.7.1/§11 (validated on unevaluatedProperties.json, unevaluatedItems.json and the rest of the official suite at start-up)")
	if n, bad, err := ref.CheckSuite("/repo"); err != nil || len(bad) > 0 {
		fmt.Fprintf(os.Stderr, "HARNESS-ERROR R1 fails the official suite: %v %v\n", err, bad)
		os.Exit(2)
	} else {
		r.Set("oracle_suite_cases_passed", n)
	}
	c01.CheckMeta(props.List, ref.D2020, nil)
	c01.CheckMeta(items.List, ref.D2020, nil)
	r.Set("object_schemas", len(props.List))
	r.Set("array_schemas", len(items.List))
	r.Set("object_pools", props.SortedPools())
	r.Set("array_pools", items.SortedPools())
	r.Set("objects", len(objs))
	r.Set("arrays", len(arrs))
	goArrs := drive.GoArrays(arrs)
	r.Set("arrays_as_go_arrays", len(goArrs))
	par.For(len(props.List), r.Expired, func(i int, j par.Journal) {
		drive.Against(r, j, props.List[i], objs, drive.Opt{Draft: ref.D2020})
		if i%1999 == 0 {
			r.Sample(map[string]any{"schema": props.List[i], "instances": "all objects over {a,b,c}x{1,\"x\"}"})
		}
	})
	// the same schemas as a loaded document: the root only refers to it and contains no
	// unevaluated* keyword itself, so anything the implementation decides per document is exercised
	stride := 3
	if thorough {
		stride = 1
	}
	remote := func(list []string, pool []drive.Inst, kind string) {
		n := 0
		par.For(len(list), r.Expired, func(i int, j par.Journal) {
			if i%stride != 0 {
				return
			}
			root := `{"$ref":"http://h/u.json"}`
			if (i/stride)%2 == 1 {
				root = `{"anyOf":[{"$ref":"u.json#"},false]}`
			}
			drive.Against(r, j, root, pool, drive.Opt{Draft: ref.D2020, BaseURI: "http://h/root.json", Docs: map[string]string{"http://h/u.json": list[i]}, DocsKey: list[i], Prefix: "remote "})
		})
		for i := 0; i < len(list); i += stride {
			n++
		}
		r.Set("remote_"+kind+"_schemas", n)
	}
	// annotations crossing a document boundary: the evaluating keywords sit in a Loader document,
	// unevaluated* in the referring root
	cross := func(leaves []string, kw string, pool []drive.Inst) {
		type rd struct{ root, doc string }
		var cases []rd
		for _, l := range leaves {
			if !strings.HasPrefix(l, "{") {
				continue
			}
			for _, root := range []string{`{"$ref":"http://h/u.json","` + kw + `":false}`, `{"allOf":[{"$ref":"u.json"}],"` + kw + `":{"type":"integer"}}`,
				`{"anyOf":[{"$ref":"u.json"},{"$ref":"u.json#/$defs/zz"}],"` + kw + `":false}`, `{"if":{"$ref":"u.json"},"else":false,"` + kw + `":false}`, `{"not":{"$ref":"u.json"},"` + kw + `":false}`} {
				doc := l
				if strings.Contains(root, "zz") {
					doc = `{"$defs":{"zz":{"maxProperties":0,"maxItems":0}},` + l[1:]
					if l == "{}" {
						doc = `{"$defs":{"zz":{"maxProperties":0,"maxItems":0}}}`
					}
				}
				cases = append(cases, rd{root, doc})
			}
		}
		par.For(len(cases), r.Expired, func(i int, j par.Journal) {
			c := cases[i]
			drive.Against(r, j, c.root, pool, drive.Opt{Draft: ref.D2020, BaseURI: "http://h/root.json", Docs: map[string]string{"http://h/u.json": c.doc}, DocsKey: c.doc, Prefix: "cross "})
		})
		r.Set("cross_document_"+kw, len(cases))
	}
	cross(gen.PropLeaves, "unevaluatedProperties", objs)
	cross(gen.ItemLeaves, "unevaluatedItems", arrs)
	remote(props.List, objs, "object")
	remote(items.List, arrs, "array")
	par.For(len(items.List), r.Expired, func(i int, j par.Journal) {
		drive.Against(r, j, items.List[i], arrs, drive.Opt{Draft: ref.D2020})
		// the same arrays carried by Go arrays ([n]any): what counts as evaluated does not depend on the Go kind
		drive.Against(r, j, items.List[i], goArrs, drive.Opt{Draft: ref.D2020})
		if i%1999 == 0 {
			r.Sample(map[string]any{"schema": items.List[i], "instances": "all arrays of length<=3 over {1,\"x\"}"})
		}
	})
}
