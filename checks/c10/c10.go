// Package c10 decides C10: every entry point returns a value or an error —
// never a panic, a fatal runtime error or a hang.
package c10

import (
	"encoding/json"
	"errors"
	"fmt"
	"net/url"
	"reflect"
	"strconv"
	"strings"

	"github.com/google/jsonschema-go/jsonschema"

	"verif/checks/c04"
	"verif/checks/c08"
	"verif/internal/drive"
	"verif/internal/ev"
	"verif/internal/gen"
	"verif/internal/par"
	"verif/internal/ref"
)

var allKeywords = []string{"$id", "$schema", "$ref", "$comment", "$defs", "definitions", "$anchor", "$dynamicAnchor", "$dynamicRef", "$vocabulary", "title", "description", "default", "deprecated", "readOnly", "writeOnly", "examples",
	"type", "enum", "const", "multipleOf", "minimum", "maximum", "exclusiveMinimum", "exclusiveMaximum", "minLength", "maxLength", "pattern", "prefixItems", "items", "additionalItems", "minItems", "maxItems", "uniqueItems",
	"contains", "minContains", "maxContains", "unevaluatedItems", "minProperties", "maxProperties", "required", "dependentRequired", "properties", "patternProperties", "additionalProperties", "propertyNames", "unevaluatedProperties",
	"allOf", "anyOf", "oneOf", "not", "if", "then", "else", "dependentSchemas", "dependencies", "contentEncoding", "contentMediaType", "contentSchema", "format", "x-unknown"}

const alphabet = "{}[]\":,tn01.-\xc3"

var minimalDocs = []string{
	`{"type":"a"}`, `{"type":["a"]}`, `{"enum":[1]}`, `{"const":1}`, `{"const":null}`, `{"multipleOf":1}`, `{"minimum":1.5}`, `{"minLength":1}`, `{"minLength":1.0}`, `{"pattern":"a"}`,
	`{"items":{}}`, `{"items":[{}]}`, `{"items":true}`, `{"prefixItems":[{}]}`, `{"additionalItems":{}}`, `{"uniqueItems":true}`, `{"contains":{}}`, `{"minContains":0}`,
	`{"required":["a"]}`, `{"dependentRequired":{"a":["b"]}}`, `{"properties":{"a":{}}}`, `{"patternProperties":{"a":{}}}`, `{"additionalProperties":false}`, `{"propertyNames":{}}`,
	`{"dependencies":{"a":["b"],"c":{}}}`, `{"dependentSchemas":{"a":{}}}`, `{"allOf":[{}]}`, `{"not":{}}`, `{"if":{},"then":{},"else":{}}`, `{"$defs":{"a":{}}}`, `{"definitions":{"a":{}}}`,
	`{"$id":"a","$ref":"#","$anchor":"a","$dynamicRef":"#a","$dynamicAnchor":"a"}`, `{"$schema":"x","$comment":"c","$vocabulary":{"a":true}}`, `{"default":1,"examples":[1],"deprecated":true}`,
	`{"format":"a","contentEncoding":"a","contentMediaType":"a","contentSchema":{}}`, `{"x":1}`, `true`, `false`, `{"unevaluatedItems":{},"unevaluatedProperties":{}}`,
}

func call(r *ev.Run, j par.Journal, key string, f func()) {
	if r.OnlyKey != "" && r.OnlyKey != key {
		return
	}
	j.Begin(key)
	p := par.Call(f)
	j.End()
	r.Eval(1)
	if p != "" {
		r.Fail(key, map[string]any{"class": "panic", "panic": firstLines(p, 14)})
	}
}

func firstLines(s string, n int) string {
	ls := strings.SplitN(s, "\n", n+1)
	if len(ls) > n {
		ls = ls[:n]
	}
	return strings.Join(ls, "\n")
}

// ---------------------------------------------------------------- (i) bytes

func bytesCases(maxLen int, yield func(b string)) {
	var rec func(cur []byte)
	rec = func(cur []byte) {
		yield(string(cur))
		if len(cur) == maxLen {
			return
		}
		for i := 0; i < len(alphabet); i++ {
			rec(append(cur, alphabet[i]))
		}
	}
	rec(nil)
}

func editNeighbourhood(doc string, yield func(b string)) {
	for i := 0; i <= len(doc); i++ {
		if i < len(doc) {
			yield(doc[:i] + doc[i+1:]) // delete
			for k := 0; k < len(alphabet); k++ {
				yield(doc[:i] + alphabet[k:k+1] + doc[i+1:]) // replace
			}
		}
		for k := 0; k < len(alphabet); k++ {
			yield(doc[:i] + alphabet[k:k+1] + doc[i:]) // insert
		}
	}
}

// ---------------------------------------------------------------- (ii) schema graphs

type graphCase struct {
	name string
	mk   func() *jsonschema.Schema
}

func subfields() []string {
	return []string{"Not", "If", "Items", "AdditionalProperties", "Contains", "PropertyNames", "UnevaluatedItems", "ContentSchema", "AdditionalItems", "Then", "Else", "UnevaluatedProperties",
		"AllOf", "AnyOf", "OneOf", "PrefixItems", "ItemsArray",
		"Defs", "Definitions", "Properties", "PatternProperties", "DependentSchemas", "DependencySchemas"}
}

func setChild(parent *jsonschema.Schema, field string, child *jsonschema.Schema, second *jsonschema.Schema) {
	f := reflect.ValueOf(parent).Elem().FieldByName(field)
	switch f.Kind() {
	case reflect.Pointer:
		f.Set(reflect.ValueOf(child))
	case reflect.Slice:
		s := []*jsonschema.Schema{child}
		if second != nil || true {
			s = append(s, second)
		}
		f.Set(reflect.ValueOf(s))
	case reflect.Map:
		f.Set(reflect.ValueOf(map[string]*jsonschema.Schema{"a": child, "b": second}))
	}
}

func graphCases() []graphCase {
	var out []graphCase
	for _, f := range subfields() {
		f := f
		for _, g := range subfields() {
			g := g
			out = append(out,
				graphCase{"shared child " + f + "," + g, func() *jsonschema.Schema {
					c := &jsonschema.Schema{Type: "integer"}
					p := &jsonschema.Schema{}
					setChild(p, f, c, &jsonschema.Schema{})
					if g != f {
						setChild(p, g, c, &jsonschema.Schema{})
					}
					return p
				}},
				graphCase{"2-cycle " + f + "," + g, func() *jsonschema.Schema {
					p := &jsonschema.Schema{}
					c := &jsonschema.Schema{}
					setChild(p, f, c, &jsonschema.Schema{})
					setChild(c, g, p, &jsonschema.Schema{})
					return p
				}},
			)
		}
		out = append(out,
			graphCase{"self-cycle " + f, func() *jsonschema.Schema {
				p := &jsonschema.Schema{}
				setChild(p, f, p, &jsonschema.Schema{})
				return p
			}},
			graphCase{"nil child " + f, func() *jsonschema.Schema {
				p := &jsonschema.Schema{}
				setChild(p, f, nil, nil)
				return p
			}},
			graphCase{"nil second child " + f, func() *jsonschema.Schema {
				p := &jsonschema.Schema{}
				setChild(p, f, &jsonschema.Schema{}, nil)
				return p
			}},
			graphCase{"same child twice " + f, func() *jsonschema.Schema {
				p := &jsonschema.Schema{}
				c := &jsonschema.Schema{}
				setChild(p, f, c, c)
				return p
			}},
			graphCase{"deep chain " + f, func() *jsonschema.Schema {
				p := &jsonschema.Schema{}
				cur := p
				for i := 0; i < 300; i++ {
					n := &jsonschema.Schema{}
					setChild(cur, f, n, &jsonschema.Schema{})
					cur = n
				}
				return p
			}},
		)
	}
	one := 1
	neg := -1
	f0 := 0.0
	conflicts := []func() *jsonschema.Schema{
		func() *jsonschema.Schema { return nil },
		func() *jsonschema.Schema { return &jsonschema.Schema{Type: "string", Types: []string{"integer"}} },
		func() *jsonschema.Schema { return &jsonschema.Schema{Types: []string{}} },
		func() *jsonschema.Schema {
			return &jsonschema.Schema{Items: &jsonschema.Schema{}, ItemsArray: []*jsonschema.Schema{{}}}
		},
		func() *jsonschema.Schema {
			return &jsonschema.Schema{Defs: map[string]*jsonschema.Schema{}, Definitions: map[string]*jsonschema.Schema{}}
		},
		func() *jsonschema.Schema {
			return &jsonschema.Schema{DependencySchemas: map[string]*jsonschema.Schema{"a": {}}, DependencyStrings: map[string][]string{"a": {"b"}}}
		},
		func() *jsonschema.Schema {
			return &jsonschema.Schema{PropertyOrder: []string{"a", "a"}, Properties: map[string]*jsonschema.Schema{"a": {}}}
		},
		func() *jsonschema.Schema {
			return &jsonschema.Schema{MinLength: &neg, MaxItems: &neg, MinContains: &neg}
		},
		func() *jsonschema.Schema { return &jsonschema.Schema{MultipleOf: &f0} },
		func() *jsonschema.Schema {
			return &jsonschema.Schema{Pattern: "(", PatternProperties: map[string]*jsonschema.Schema{"[": {}, "(?P<n>": nil}}
		},
		func() *jsonschema.Schema {
			return &jsonschema.Schema{Default: json.RawMessage(`{`), Examples: []any{func() {}}}
		},
		func() *jsonschema.Schema { return &jsonschema.Schema{Default: json.RawMessage(``)} },
		func() *jsonschema.Schema { return &jsonschema.Schema{Default: json.RawMessage(`nul`), Type: "integer"} },
		func() *jsonschema.Schema {
			return &jsonschema.Schema{Const: new(any), Enum: []any{nil, func() {}, make(chan int)}}
		},
		func() *jsonschema.Schema { return &jsonschema.Schema{Extra: map[string]any{"type": 1, "x": func() {}}} },
		func() *jsonschema.Schema { return &jsonschema.Schema{Vocabulary: map[string]bool{"x": true}} },
		func() *jsonschema.Schema { return &jsonschema.Schema{MinItems: &one, Required: []string{"a", "a"}} },
		func() *jsonschema.Schema { return &jsonschema.Schema{Schema: "x"} },
	}
	for i, c := range conflicts {
		out = append(out, graphCase{fmt.Sprintf("conflict %d", i), c})
	}
	for _, ptr := range nonSchemaPointers {
		ptr := ptr
		out = append(out, graphCase{"rich Ref=" + ptr, func() *jsonschema.Schema {
			s := richSchema()
			s.Properties["a"] = &jsonschema.Schema{Ref: ptr}
			return s
		}}, graphCase{"rich nested Ref=" + ptr, func() *jsonschema.Schema {
			s := richSchema()
			s.ID = ""
			return &jsonschema.Schema{Defs: map[string]*jsonschema.Schema{"r": s}, Items: &jsonschema.Schema{Ref: "#/$defs/r" + ptr[1:]}, AnyOf: []*jsonschema.Schema{{DynamicRef: "#/$defs/r" + ptr[1:]}}}
		}})
	}
	for _, u := range badURIs {
		u := u
		for _, field := range []string{"ID", "Ref", "DynamicRef", "Anchor", "DynamicAnchor", "Schema"} {
			field := field
			out = append(out, graphCase{fmt.Sprintf("uri %s=%q", field, u), func() *jsonschema.Schema {
				p := &jsonschema.Schema{Defs: map[string]*jsonschema.Schema{"a": {}}}
				reflect.ValueOf(p).Elem().FieldByName(field).SetString(u)
				return p
			}})
			out = append(out, graphCase{fmt.Sprintf("uri nested %s=%q", field, u), func() *jsonschema.Schema {
				c := &jsonschema.Schema{}
				reflect.ValueOf(c).Elem().FieldByName(field).SetString(u)
				return &jsonschema.Schema{ID: "http://h/r.json", Items: c, Properties: map[string]*jsonschema.Schema{"a": {Ref: "#/items"}}}
			}})
		}
	}
	return out
}

// nonSchemaPointers lead into keywords whose values are not schemas.
var nonSchemaPointers = []string{"#/allOf/9223372036854775808", "#/allOf/18446744073709551615", "#/prefixItems/9223372036854775807", "#/allOf/4294967296", "#/prefixItems/18446744073709551616", "#/minimum", "#/minimum/x", "#/type", "#/type/0", "#/enum", "#/enum/0", "#/enum/0/a", "#/const", "#/const/x", "#/required", "#/required/0", "#/default", "#/default/0", "#/default/a",
	"#/dependencies/a", "#/dependencies/a/0", "#/dependencies/b", "#/$vocabulary", "#/$vocabulary/x", "#/examples", "#/examples/0", "#/x-extra", "#/x-extra/a", "#/dependentRequired/a", "#/dependentRequired/a/0",
	"#/multipleOf", "#/title", "#/title/0", "#/$id", "#/$ref", "#/uniqueItems", "#/uniqueItems/x", "#/minLength", "#/minLength/0", "#/items/0", "#/items/a", "#/prefixItems/a", "#/prefixItems/-", "#/properties/a/0",
	"#/Extra", "#/extra", "#/PropertyOrder/0", "#/propertyOrder", "#/pattern", "#/pattern/0", "#/format/x", "#/deprecated/x", "#/$comment/0", "#/$anchor/x", "#/$dynamicAnchor", "#/$schema/x", "#/contentEncoding/0",
	"#/maxContains/0", "#/exclusiveMinimum/x", "#/readOnly", "#/$defs", "#/$defs/", "#/properties", "#/allOf", "#/allOf/x", "#/dependentSchemas", "#/patternProperties", "#/not/x", "#/if/0", "#"}

func richSchema() *jsonschema.Schema {
	one := 1.0
	n := 1
	var c any = map[string]any{"x": []any{1.0}}
	return &jsonschema.Schema{
		ID: "http://h/rich.json", Title: "t", Comment: "c", Type: "", Types: []string{"object", "integer"}, Enum: []any{map[string]any{"a": 1.0}, 1.0}, Const: &c,
		Minimum: &one, MultipleOf: &one, ExclusiveMinimum: &one, MinLength: &n, MaxContains: &n, Pattern: "a", Format: "x", Required: []string{"a"}, Default: json.RawMessage(`{"a":[1]}`), Examples: []any{[]any{1.0}},
		DependencyStrings: map[string][]string{"a": {"b"}}, DependencySchemas: map[string]*jsonschema.Schema{"b": {}}, DependentRequired: map[string][]string{"a": {"b"}},
		Extra: map[string]any{"x-extra": map[string]any{"a": map[string]any{"type": "integer"}}}, UniqueItems: true, ReadOnly: true, Deprecated: true, ContentEncoding: "base64", Anchor: "anc", DynamicAnchor: "dyn",
		Items: &jsonschema.Schema{}, PrefixItems: []*jsonschema.Schema{{}}, Properties: map[string]*jsonschema.Schema{"a": {}}, PropertyOrder: []string{"a"}, AllOf: []*jsonschema.Schema{{}}, Not: &jsonschema.Schema{}, If: &jsonschema.Schema{},
		Defs: map[string]*jsonschema.Schema{"": {}}, DependentSchemas: map[string]*jsonschema.Schema{"a": {}}, PatternProperties: map[string]*jsonschema.Schema{"^a": {}},
	}
}

var badURIs = []string{"%zz", ":", "http://[::1", "#", "##", "#/~2", "a b", "\x7f", "", "#/", "#/a/~", "http://h/%", "//", "?#", "#%41", "#/items/0", "#/allOf/99999999999999999999", "\x00", "http://h/a#b#c", "urn:", "a:b:c", "../../..", "#/properties/a/items"}

type optCase struct {
	name string
	mk   func() *jsonschema.ResolveOptions
}

func resolveOpts() []optCase {
	self := func(uri *url.URL) (*jsonschema.Schema, error) {
		return &jsonschema.Schema{Ref: uri.String()}, nil
	}
	pingpong := func(uri *url.URL) (*jsonschema.Schema, error) {
		if strings.HasSuffix(uri.Path, "a.json") {
			return &jsonschema.Schema{Ref: "b.json#x", Anchor: "x"}, nil
		}
		return &jsonschema.Schema{Ref: "a.json#x", Anchor: "x", ID: "http://elsewhere/c.json"}, nil
	}
	return []optCase{
		{"nil", func() *jsonschema.ResolveOptions { return nil }},
		{"BaseURI malformed", func() *jsonschema.ResolveOptions { return &jsonschema.ResolveOptions{BaseURI: "http://[::1"} }},
		{"BaseURI fragment", func() *jsonschema.ResolveOptions { return &jsonschema.ResolveOptions{BaseURI: "http://h/r.json#f"} }},
		{"BaseURI relative", func() *jsonschema.ResolveOptions { return &jsonschema.ResolveOptions{BaseURI: "rel/x.json"} }},
		{"loader error", func() *jsonschema.ResolveOptions {
			return &jsonschema.ResolveOptions{BaseURI: "http://h/r.json", Loader: func(*url.URL) (*jsonschema.Schema, error) { return nil, errors.New("boom") }}
		}},
		{"loader wrong document", func() *jsonschema.ResolveOptions {
			return &jsonschema.ResolveOptions{BaseURI: "http://h/r.json", Loader: func(*url.URL) (*jsonschema.Schema, error) {
				return &jsonschema.Schema{ID: "http://other/z.json", Type: "x", Pattern: "("}, nil
			}}
		}},
		{"loader self-referential", func() *jsonschema.ResolveOptions {
			return &jsonschema.ResolveOptions{BaseURI: "http://h/r.json", Loader: self}
		}},
		{"loader ping-pong", func() *jsonschema.ResolveOptions {
			return &jsonschema.ResolveOptions{BaseURI: "http://h/r.json", Loader: pingpong}
		}},
		{"loader one shared *Schema for every URI", func() *jsonschema.ResolveOptions {
			shared := &jsonschema.Schema{Type: "object", Properties: map[string]*jsonschema.Schema{"a": {Ref: "other.json"}}}
			return &jsonschema.ResolveOptions{BaseURI: "http://h/r.json", Loader: func(*url.URL) (*jsonschema.Schema, error) { return shared, nil }}
		}},
		{"loader documents sharing a subschema pointer", func() *jsonschema.ResolveOptions {
			sub := &jsonschema.Schema{Type: "integer", Anchor: "x"}
			return &jsonschema.ResolveOptions{BaseURI: "http://h/r.json", Loader: func(u *url.URL) (*jsonschema.Schema, error) {
				return &jsonschema.Schema{ID: u.String(), Defs: map[string]*jsonschema.Schema{"s": sub}, Items: sub}, nil
			}}
		}},
		{"loader document with fragment $id and bad pattern", func() *jsonschema.ResolveOptions {
			return &jsonschema.ResolveOptions{BaseURI: "http://h/r.json", Loader: func(u *url.URL) (*jsonschema.Schema, error) {
				return &jsonschema.Schema{ID: "#frag", PatternProperties: map[string]*jsonschema.Schema{"(": {}}, DynamicRef: "#nowhere"}, nil
			}}
		}},
		{"ValidateDefaults", func() *jsonschema.ResolveOptions { return &jsonschema.ResolveOptions{ValidateDefaults: true} }},
		{"ValidateDefaults+loader", func() *jsonschema.ResolveOptions {
			return &jsonschema.ResolveOptions{BaseURI: "http://h/r.json", ValidateDefaults: true, Loader: pingpong}
		}},
	}
}

// ---------------------------------------------------------------- Run

func Run(r *ev.Run) {
	thorough := r.Tier == "thorough"
	maxLen := 4
	if thorough {
		maxLen = 5
	}
	r.Rule(fmt.Sprintf("(i) json.Unmarshal into Schema of every byte string of length<=%d over the 14-byte alphabet {}[]\":,tn01.-\\xc3, of every keyword x 23 JSON values of every shape (alone, nested, twice) and of the complete single-byte edit neighbourhood (delete/replace/insert at every offset) of %d minimal documents (one per keyword shape); ", maxLen, len(minimalDocs)) +
		"(ii) Resolve (then Validate, Marshal, CloneSchemas when it succeeds) on Schema graphs: every pair of subschema-bearing fields with a shared child, a 2-cycle, self-cycles, nil children, the same child twice, 300-deep chains, conflicting fields, 23 malformed URIs in every URI-valued field, 66 JSON Pointers leading into non-schema keywords of a fully populated schema ($ref and $dynamicRef), x 13 resolve-option sets (malformed/relative/fragment BaseURI, loader error / wrong document / self-referential / ping-pong universe, ValidateDefaults with malformed default bytes); " +
		"(v) three-document universes root -> d1 -> d2 through a Loader, each document declaring 2020-12 / draft-07 / nothing, d1 and d2 each carrying one of 15 draft-specific keyword shapes, 4 root forms: Resolve, then Validate and ApplyDefaults on 6 instances; " +
		"(vi) 128 three-document universes whose documents refer back into documents that are still being resolved, with defaults beside the references, resolved with and without ValidateDefaults; " +
		"(vii) recursive definitions whose anchor or resource sits below the root (fragment $id / $anchor / $dynamicAnchor / nested $id), both drafts; " +
		"(iii) Validate and ApplyDefaults on every (schema, value, representation) of C08's space, plus ApplyDefaults on typed map targets with defaults of matching and of wrong JSON type; (iv) For/ForType on every G-type type incl. recursive and unsupported ones x IgnoreInvalidTypes x TypeSchemas {nil, shared, cyclic}. " +
		"Oracle: recover() around each call; a fatal runtime error kills the worker process and is attributed by the parent through the mmap journal; 900 s watchdog per call. Non-trivial = every call (distinct by construction)")
	r.Assume("contract violations are not inputs: ApplyDefaults with a non-pointer / struct target, ForType(nil), cyclic instances, a Loader returning (nil, nil)")

	// (i)
	var bs []string
	bytesCases(maxLen, func(b string) { bs = append(bs, b) })
	seen := map[string]bool{}
	for _, d := range minimalDocs {
		editNeighbourhood(d, func(b string) {
			if !seen[b] {
				seen[b] = true
				bs = append(bs, b)
			}
		})
	}
	// every keyword with a value of every JSON shape (most of them of the wrong type for it)
	for _, k := range allKeywords {
		for _, v := range []string{`1`, `-1`, `1.5`, `"s"`, `""`, `null`, `true`, `false`, `[]`, `{}`, `[1]`, `[null]`, `["a","a"]`, `{"a":null}`, `{"a":1}`, `{"a":[]}`, `{"a":["b",1]}`, `[[]]`, `[{}]`, `[true,null]`, `"#"`, `1e400`, `{"":{}}`} {
			for _, tmpl := range []string{`{%q:%s}`, `{"items":{%q:%s}}`, `{"type":"object",%q:%s,"properties":{"a":{%q:%s}}}`} {
				b := strings.Replace(strings.Replace(tmpl, "%q", strconv.Quote(k), -1), "%s", v, -1)
				if !seen[b] {
					seen[b] = true
					bs = append(bs, b)
				}
			}
		}
	}
	r.Set("byte_strings", len(bs))
	par.For(len(bs), r.Expired, func(i int, j par.Journal) {
		b := bs[i]
		call(r, j, fmt.Sprintf("Unmarshal(%q)", b), func() {
			var s jsonschema.Schema
			if err := json.Unmarshal([]byte(b), &s); err == nil {
				// schema recursion that does not descend into the instance is outside the
				// property: documents with references are resolved but not validated here
				if rs, err := s.Resolve(nil); err == nil && !strings.Contains(b, "ref") && !strings.Contains(b, "Ref") {
					rs.Validate(map[string]any{"a": []any{1.0}})
					rs.Validate(1.0)
				}
				json.Marshal(&s)
			}
		})
		if i%99991 == 0 {
			r.Sample(fmt.Sprintf("Unmarshal(%q)", b))
		}
	})
	r.NontrivialN(len(bs))

	// (ii)
	gcs := graphCases()
	ros := resolveOpts()
	r.Set("schema_graphs", len(gcs))
	r.Set("resolve_option_sets", len(ros))
	par.For(len(gcs)*len(ros), r.Expired, func(i int, j par.Journal) {
		g, o := gcs[i/len(ros)], ros[i%len(ros)]
		call(r, j, "Resolve("+g.name+", "+o.name+")", func() {
			s := g.mk()
			ro := o.mk()
			rs, err := s.Resolve(ro)
			if err == nil && rs != nil && (ro == nil || ro.Loader == nil) && !strings.Contains(g.name, "Ref=") {
				rs.Validate(map[string]any{"a": []any{1.0, "x"}, "b": 1.0})
				rs.Validate([]any{map[string]any{"a": 1.0}})
				var inst any = map[string]any{}
				rs.ApplyDefaults(&inst)
				json.Marshal(s)
				s.CloneSchemas()
			}
		})
		if i%997 == 0 {
			r.Sample("Resolve(" + g.name + ", " + o.name + ")")
		}
	})
	r.NontrivialN(len(gcs) * len(ros))
	// marshal/clone of graphs that do not resolve (nil children, conflicts) must not panic either
	par.For(len(gcs), r.Expired, func(i int, j par.Journal) {
		g := gcs[i]
		if strings.Contains(g.name, "cycle") {
			return // cyclic Go values are contract violations for Marshal/Clone (no tree)
		}
		call(r, j, "Marshal+Clone("+g.name+")", func() {
			s := g.mk()
			if s != nil {
				json.Marshal(s)
				s.CloneSchemas()
			}
		})
	})

	// (iii)
	vals := gen.Vals(c08.Values...)
	type rp struct {
		x    any
		desc string
	}
	var reps []rp
	for _, v := range vals {
		for _, x := range gen.Reps(v, 2, 1, gen.RepOpts{}) {
			reps = append(reps, rp{x.V, x.Desc})
		}
	}
	// out-of-domain but JSON-shaped instances must still not panic
	extra := []any{[]any(nil), map[string]any(nil), []int(nil), (*[]any)(nil), map[string][]any{"a": nil}, json.Number("abc"), json.Number(""), json.Number("1e999999999"),
		map[int]any{1: 1}, map[gen.MyKey]any{"a": map[gen.MyKey]int{"b": 1}}, struct{ A int }{1}, &struct{ A int }{1}, []struct{ A int }{{1}}, float32(1.5), complex(1, 2), func() {}, make(chan int),
		map[string]any{"a": func() {}}, []any{make(chan int)}, [0]int{}, [3]any{}, map[string]*int{"a": nil}}
	for _, x := range extra {
		reps = append(reps, rp{x, "extra " + gen.Describe2(x)})
	}
	schemas := append([]string(nil), c08.Schemas...)
	schemas = append(schemas, `{"properties":{"a":{"default":1},"b":{"default":{"c":1},"properties":{"c":{"default":2},"d":{"default":[1]}}}},"required":["z"]}`,
		`{"properties":{"a":{"properties":{"b":{"properties":{"c":{"default":"x"}}}}}}}`,
		`{"properties":{"a":{"default":"str"},"b":{"default":null},"c":{"default":[1,2]},"d":{"default":{"e":1}}},"additionalProperties":{"default":5}}`)
	r.Set("validate_schemas", len(schemas))
	r.Set("instances_in_representations", len(reps))
	par.For(len(schemas), r.Expired, func(i int, j par.Journal) {
		rs, stage, _ := drive.Compile(schemas[i], nil)
		if stage != "" {
			return
		}
		for _, x := range reps {
			call(r, j, "Validate("+schemas[i]+", "+x.desc+")", func() { rs.Validate(x.x) })
			if strings.Contains(schemas[i], "default") || i%8 == 0 {
				call(r, j, "ApplyDefaults("+schemas[i]+", &"+x.desc+")", func() {
					// fresh, mutable copy behind a pointer of the value's own type
					v := reflect.ValueOf(x.x)
					if !v.IsValid() {
						var a any
						rs.ApplyDefaults(&a)
						return
					}
					if v.Kind() == reflect.Struct || (v.Kind() == reflect.Pointer && v.Elem().Kind() == reflect.Struct) {
						return // documented: structs are not supported (and may panic)
					}
					if c04.HasNilMap(v) {
						return // nil maps are outside the domain (nothing can be assigned into them)
					}
					p := reflect.New(v.Type())
					p.Elem().Set(deepCopy(v))
					rs.ApplyDefaults(p.Interface())
					var a any = deepCopy(v).Interface()
					rs.ApplyDefaults(&a)
				})
			}
		}
		r.NontrivialN(len(reps))
	})
	// typed map targets
	typed := []func() any{
		func() any { return &map[string]int{} }, func() any { return &map[string]map[string]any{} }, func() any { return &map[gen.MyKey]any{} },
		func() any { return &map[string]string{"a": "x"} }, func() any { return &map[string][]int{} }, func() any { return &map[string]*int{} },
		func() any { return &map[string]map[string]int{"b": {}} }, func() any { return &map[string]any{"b": map[string]int{}} }, func() any { return &map[string]gen.MyMap{} },
		func() any { var a any; return &a }, func() any { var a any = []any{}; return &a },
		func() any { m := map[string]any{}; return &map[string]*map[string]any{"b": &m} }, func() any { return &map[string]*map[string]any{"b": nil} }, func() any { var p *map[string]any; return &p },
		func() any { return &map[string][]map[string]any{"b": {{}}} }, func() any { return &map[string]any{"b": &map[string]any{}} }, func() any { return &map[string]any{"b": gen.MyMap{}} },
		func() any { return &map[string]map[gen.MyKey]any{"b": {}} }, func() any { return &map[string]json.Number{} }, func() any { return &map[string]float32{} },
	}
	par.For(len(schemas)*len(typed), r.Expired, func(i int, j par.Journal) {
		si, ti := i/len(typed), i%len(typed)
		if !strings.Contains(schemas[si], "default") {
			return
		}
		rs, stage, _ := drive.Compile(schemas[si], nil)
		if stage != "" {
			return
		}
		call(r, j, fmt.Sprintf("ApplyDefaults(%s, typed target %d %T)", schemas[si], ti, typed[ti]()), func() {
			t := typed[ti]()
			rs.ApplyDefaults(t)
			rs.ApplyDefaults(t)
			rs.Validate(t)
		})
		r.NontrivialN(1)
	})

	// (iv)
	ts := c04.Types(thorough)
	cyc := &jsonschema.Schema{Type: "object"}
	cyc.Properties = map[string]*jsonschema.Schema{"self": cyc}
	shared := &jsonschema.Schema{Type: "object", Properties: map[string]*jsonschema.Schema{"p": {Type: "integer"}}}
	forOpts := []struct {
		name string
		o    func() *jsonschema.ForOptions
	}{
		{"nil", func() *jsonschema.ForOptions { return nil }},
		{"ignore", func() *jsonschema.ForOptions { return &jsonschema.ForOptions{IgnoreInvalidTypes: true} }},
		{"TypeSchemas nil entry", func() *jsonschema.ForOptions {
			return &jsonschema.ForOptions{TypeSchemas: map[reflect.Type]*jsonschema.Schema{reflect.TypeOf(gen.Inner{}): nil, reflect.TypeOf(0): nil}}
		}},
		{"TypeSchemas shared", func() *jsonschema.ForOptions {
			return &jsonschema.ForOptions{IgnoreInvalidTypes: true, TypeSchemas: map[reflect.Type]*jsonschema.Schema{reflect.TypeOf(gen.Inner{}): shared, reflect.TypeOf(gen.MyInt(0)): shared, reflect.TypeOf(gen.RecPtr{}): shared, reflect.TypeOf(gen.BadNamed{}): shared}}
		}},
		{"TypeSchemas non-object for embedded", func() *jsonschema.ForOptions {
			return &jsonschema.ForOptions{TypeSchemas: map[reflect.Type]*jsonschema.Schema{reflect.TypeOf(gen.Inner{}): {Type: "string"}, reflect.TypeOf(gen.Mid{}): {Types: []string{"object"}}}}
		}},
	}
	r.Set("types", len(ts))
	par.For(len(ts)*len(forOpts), r.Expired, func(i int, j par.Journal) {
		t, o := ts[i/len(forOpts)], forOpts[i%len(forOpts)]
		call(r, j, "ForType("+t.Desc+", "+o.name+")", func() {
			s, err := jsonschema.ForType(t.Type, o.o())
			if err == nil && s != nil {
				s.Resolve(nil)
				json.Marshal(s)
			}
		})
		r.NontrivialN(1)
	})
	_ = cyc
	_ = ref.Null

	// (v) documents of different drafts in one universe
	mixedDrafts(r)
	// (vi) documents that refer back into a document that is still being resolved, with defaults
	cyclicDefaults(r)
	// (vii) recursive definitions whose anchor / resource sits below the root, in both drafts
	recursiveDocs(r)
}

func recursiveDocs(r *ev.Run) {
	const d7 = `"$schema":"http://json-schema.org/draft-07/schema#",`
	docs := []string{
		`{` + d7 + `"definitions":{"node":{"$id":"#node","type":"object","properties":{"kids":{"type":"array","items":{"$ref":"#node"}}}}},"allOf":[{"$ref":"#node"}]}`,
		`{` + d7 + `"properties":{"a":{"$id":"#a","properties":{"b":{"$id":"inner.json","properties":{"c":{"$ref":"#/definitions/x"}},"definitions":{"x":{"$id":"#x"}}}}}},"definitions":{"x":{"type":"integer"}}}`,
		`{` + d7 + `"definitions":{"n":{"$id":"#n","items":[{"$ref":"#n"},{"$id":"http://h/sub.json","items":{"$ref":"#/definitions/m"},"definitions":{"m":{"$id":"#m","type":"integer"}}}]}},"items":{"$ref":"#n"}}`,
		`{` + d7 + `"$id":"http://h/root.json","definitions":{"n":{"$id":"#n","patternProperties":{"^k":{"$ref":"#n"}},"additionalProperties":{"$ref":"root.json#n"}}},"properties":{"p":{"$ref":"#n"}}}`,
		`{"$defs":{"node":{"$anchor":"node","type":"object","properties":{"kids":{"type":"array","items":{"$ref":"#node"}}}}},"$ref":"#node"}`,
		`{"$defs":{"n":{"$dynamicAnchor":"n","prefixItems":[{"$dynamicRef":"#n"}],"items":{"$id":"http://h/sub.json","$anchor":"m","items":{"$ref":"#m"}}}},"$ref":"#/$defs/n"}`,
		`{"$id":"http://h/root.json","$defs":{"a":{"$id":"a/","$defs":{"b":{"$id":"b/","$anchor":"x","properties":{"up":{"$ref":"../../root.json"},"self":{"$ref":"#x"}}}}}},"properties":{"p":{"$ref":"a/b/#x"}}}`,
	}
	insts := []func() any{
		func() any { return map[string]any{"kids": []any{map[string]any{"kids": []any{map[string]any{}, 1.0}}}} }, func() any { return []any{[]any{[]any{1.0}, []any{"s"}}, 1.0} },
		func() any {
			return map[string]any{"a": map[string]any{"b": map[string]any{"c": 1.0}}, "p": map[string]any{"k": 1.0, "z": map[string]any{"k": map[string]any{}}, "up": map[string]any{"p": map[string]any{"self": 1.0}}}}
		}, func() any { return 1.0 },
	}
	par.For(len(docs)*2, r.Expired, func(i int, j par.Journal) {
		{
			d, vd := docs[i/2], i%2 == 1
			call(r, j, fmt.Sprintf("Recursive(%s, ValidateDefaults=%v)", d, vd), func() {
				var s jsonschema.Schema
				if json.Unmarshal([]byte(d), &s) != nil {
					return
				}
				rs, err := s.Resolve(&jsonschema.ResolveOptions{ValidateDefaults: vd})
				if err != nil {
					return
				}
				for _, mk := range insts {
					rs.Validate(mk())
					x := mk()
					rs.ApplyDefaults(&x)
				}
				json.Marshal(&s)
				s.CloneSchemas()
			})
			r.NontrivialN(1)
		}
	})
}

// cyclicDefaults: root, l.json and k.json refer to each other (always through an
// instance-descending keyword), defaults sit beside the cross-document references;
// Resolve with and without ValidateDefaults, then Validate and ApplyDefaults.
func cyclicDefaults(r *ev.Run) {
	roots := []string{
		`{"$defs":{"l":{"$ref":"l.json"}},"type":"object","properties":{"viaK":{"$ref":"k.json"},"l":{"$ref":"#/$defs/l"}}}`,
		`{"properties":{"a":{"$ref":"k.json"},"b":{"$ref":"l.json"},"viaK":{"$ref":"k.json"}},"$defs":{"z":{"$ref":"l.json#/properties/x"}}}`,
		`{"$defs":{"k":{"$ref":"k.json"},"l":{"$ref":"l.json"}},"properties":{"viaK":{"$ref":"#/$defs/k"},"l":{"$ref":"#/$defs/l"}},"default":{"l":{"x":%s}}}`,
		`{"$id":"http://example.com/canon-root.json","properties":{"l":{"$ref":"http://example.com/l.json"},"viaK":{"$ref":"http://example.com/k.json","default":%s}}}`,
	}
	ls := []string{
		`{"type":"object","properties":{"x":{"$ref":"root.json#/properties/viaK","default":%s}}}`,
		`{"properties":{"x":{"$ref":"k.json","default":%s},"y":{"$ref":"root.json#/properties/viaK"}},"default":{"x":%s}}`,
		`{"items":{"$ref":"root.json#/properties/viaK","default":%s},"properties":{"x":{"$ref":"#/items"}}}`,
		`{"properties":{"x":{"$ref":"k.json#/properties/q","default":%s}}}`,
	}
	ks := []string{
		`{"type":"integer"}`,
		`{"$id":"http://example.com/canon-k.json","type":"integer","default":%s}`,
		`{"properties":{"q":{"$ref":"root.json#/properties/viaK","default":%s}},"type":["integer","object"]}`,
		`{"properties":{"q":{"$ref":"l.json","default":{"x":%s}}},"type":["integer","object"]}`,
	}
	insts := []func() any{
		func() any { return map[string]any{} }, func() any { return map[string]any{"viaK": 1.0, "l": map[string]any{"x": 2.0}} },
		func() any { return map[string]any{"viaK": 1.0, "l": map[string]any{"x": "two"}} }, func() any {
			return map[string]any{"a": map[string]any{"q": map[string]any{"x": 1.0}}, "b": []any{1.0, "s"}}
		}, func() any { return 1.0 },
	}
	n := len(roots) * len(ls) * len(ks) * 2 * 2
	r.Set("cyclic_default_universes", n)
	par.For(n, r.Expired, func(i int, j par.Journal) {
		k := i
		pick := func(m int) int { x := k % m; k /= m; return x }
		vd, d, ki, li, ri := pick(2) == 1, []string{`5`, `"s"`}[pick(2)], pick(len(ks)), pick(len(ls)), pick(len(roots))
		root := strings.ReplaceAll(roots[ri], "%s", d)
		docs := map[string]string{"http://example.com/l.json": strings.ReplaceAll(ls[li], "%s", d), "http://example.com/k.json": strings.ReplaceAll(ks[ki], "%s", d)}
		call(r, j, fmt.Sprintf("Cyclic(root %s, l %s, k %s, ValidateDefaults=%v)", root, docs["http://example.com/l.json"], docs["http://example.com/k.json"], vd), func() {
			ml := &drive.MapLoader{Docs: docs}
			var s jsonschema.Schema
			if err := json.Unmarshal([]byte(root), &s); err != nil {
				return
			}
			rs, err := s.Resolve(&jsonschema.ResolveOptions{BaseURI: "http://example.com/root.json", Loader: ml.Load, ValidateDefaults: vd})
			if err != nil {
				return
			}
			for _, mk := range insts {
				rs.Validate(mk())
				x := mk()
				rs.ApplyDefaults(&x)
			}
		})
		r.NontrivialN(1)
	})
}

// mixedDrafts: root -> d1 -> d2 through a Loader, every document declaring 2020-12, draft-07 or
// nothing, d1 and d2 carrying one draft-specific keyword shape each. No edge leads back, so
// every evaluation descends or terminates.
func mixedDrafts(r *ev.Run) {
	drafts := []string{``, `"$schema":"https://json-schema.org/draft/2020-12/schema",`, `"$schema":"http://json-schema.org/draft-07/schema#",`}
	frags := []string{
		// @ is the document's own anchor name (a in d1, b in d2): a dynamic reference never
		// leads back to an enclosing document, which would recurse without descending
		`"$dynamicRef":"#@","$defs":{"m":{"$dynamicAnchor":"@","type":"object"}}`,
		`"$dynamicRef":"#@","definitions":{"m":{"$anchor":"@","type":"array"}}`,
		`"$dynamicAnchor":"@","properties":{"a":{"$dynamicRef":"#@"}}`,
		`"items":[{"type":"integer"}],"additionalItems":false`,
		`"prefixItems":[{"type":"integer"}],"items":false`,
		`"dependencies":{"a":["b"],"b":{"required":["c"]}}`,
		`"dependentSchemas":{"a":{"required":["b"]}},"dependentRequired":{"b":["c"]}`,
		`"$ref":"#/definitions/m","definitions":{"m":{"type":"object"}},"maxProperties":0`,
		`"$ref":"#/$defs/m","$defs":{"m":{"type":"object"}},"maxProperties":0`,
		`"unevaluatedProperties":false,"properties":{"a":true},"unevaluatedItems":false`,
		`"contains":{"type":"integer"},"minContains":0,"maxContains":1`,
		`"$recursiveRef":"#","$recursiveAnchor":true`,
		`"$id":"http://h/other.json","$anchor":"x","properties":{"a":{"$ref":"#x"}},"default":{"a":1}`,
		`"$id":"#frag","properties":{"a":{"$ref":"#frag"}}`,
		`"if":{"required":["a"]},"then":{"properties":{"a":{"default":[1]}}},"type":["object","array"]`,
	}
	roots := []string{`"$ref":"d1.json"`, `"allOf":[{"$ref":"d1.json"}],"properties":{"a":{"$ref":"d1.json"}}`, `"$dynamicRef":"d1.json#a","$defs":{"m":{"$dynamicAnchor":"a"}}`, `"items":{"$ref":"d1.json"},"additionalProperties":{"$ref":"d1.json"}`}
	insts := []func() any{
		func() any { return map[string]any{} }, func() any { return map[string]any{"a": map[string]any{"a": 1.0}, "b": 1.0} }, func() any { return []any{1.0, "x"} },
		func() any { return []any{map[string]any{"a": []any{}}} }, func() any { return 1.0 }, func() any { return map[string]any{"a": []any{1.0, 1.0}} },
	}
	n := len(drafts) * len(drafts) * len(drafts) * len(frags) * len(frags) * len(roots)
	r.Set("mixed_draft_universes", n)
	par.For(n, r.Expired, func(i int, j par.Journal) {
		k := i
		pick := func(m int) int { x := k % m; k /= m; return x }
		ro, f2, f1, d2, d1, d0 := pick(len(roots)), pick(len(frags)), pick(len(frags)), pick(len(drafts)), pick(len(drafts)), pick(len(drafts))
		root := `{` + drafts[d0] + roots[ro] + `}`
		doc1 := `{` + drafts[d1] + `"anyOf":[{"$ref":"d2.json"},true],` + strings.ReplaceAll(frags[f1], "@", "a") + `}`
		doc2 := `{` + drafts[d2] + strings.ReplaceAll(frags[f2], "@", "b") + `}`
		call(r, j, "Mixed(root "+root+", d1 "+doc1+", d2 "+doc2+")", func() {
			ml := &drive.MapLoader{Docs: map[string]string{"http://h/d1.json": doc1, "http://h/d2.json": doc2}}
			var s jsonschema.Schema
			if err := json.Unmarshal([]byte(root), &s); err != nil {
				return
			}
			rs, err := s.Resolve(&jsonschema.ResolveOptions{BaseURI: "http://h/root.json", Loader: ml.Load, ValidateDefaults: (i/len(roots))%2 == 0})
			if err != nil {
				return
			}
			for _, mk := range insts {
				rs.Validate(mk())
				x := mk()
				rs.ApplyDefaults(&x)
			}
		})
		r.NontrivialN(1)
	})
}

func deepCopy(v reflect.Value) reflect.Value {
	switch v.Kind() {
	case reflect.Map:
		if v.IsNil() {
			return v
		}
		m := reflect.MakeMap(v.Type())
		it := v.MapRange()
		for it.Next() {
			m.SetMapIndex(it.Key(), deepCopy(it.Value()))
		}
		return m
	case reflect.Slice:
		if v.IsNil() {
			return v
		}
		s := reflect.MakeSlice(v.Type(), v.Len(), v.Len())
		for i := 0; i < v.Len(); i++ {
			s.Index(i).Set(deepCopy(v.Index(i)))
		}
		return s
	case reflect.Interface:
		if v.IsNil() {
			return v
		}
		c := deepCopy(v.Elem())
		n := reflect.New(v.Type()).Elem()
		n.Set(c)
		return n
	case reflect.Pointer:
		if v.IsNil() {
			return v
		}
		p := reflect.New(v.Type().Elem())
		p.Elem().Set(deepCopy(v.Elem()))
		return p
	}
	return v
}
