// Package c04 decides C04: the inferred schema accepts the JSON encoding of
// every value of the type.
package c04

import (
	"encoding/json"
	"fmt"
	"reflect"

	"github.com/google/jsonschema-go/jsonschema"

	"verif/internal/drive"
	"verif/internal/ev"
	"verif/internal/gen"
	"verif/internal/par"
)

// Types returns the plain-data domain of G-type for a tier.
func Types(thorough bool) []gen.T {
	var ts []gen.T
	depth := 3
	ts = append(ts, gen.Composites(depth)...)
	if thorough {
		ts = append(ts, gen.Structs(2, 1)...)
		ts = append(ts, gen.Structs(3, 7)...)
	} else {
		ts = append(ts, gen.Structs(2, 3)...)
	}
	ts = append(ts, gen.Catalog()...)
	var out []gen.T
	seen := map[reflect.Type]bool{}
	for _, t := range ts {
		if seen[t.Type] {
			continue
		}
		seen[t.Type] = true
		out = append(out, t)
	}
	return out
}

// InDomain reports whether the type is in C04's plain-data domain.
func InDomain(t gen.T) bool {
	if t.Recursive || t.Unsupported {
		return false
	}
	return !hasByteSliceOrValueMarshalerInMap(t.Type, map[reflect.Type]bool{})
}

func hasByteSliceOrValueMarshalerInMap(t reflect.Type, seen map[reflect.Type]bool) bool {
	if seen[t] {
		return false
	}
	seen[t] = true
	defer delete(seen, t)
	if gen.IsMarshalerType(t) {
		return false
	}
	switch t.Kind() {
	case reflect.Slice:
		if t.Elem().Kind() == reflect.Uint8 {
			return true // []byte: base64 string, outside the domain
		}
		return hasByteSliceOrValueMarshalerInMap(t.Elem(), seen)
	case reflect.Array, reflect.Pointer:
		return hasByteSliceOrValueMarshalerInMap(t.Elem(), seen)
	case reflect.Map:
		e := t.Elem()
		if gen.IsMarshalerType(e) && e.Kind() == reflect.Struct && e.String() != "time.Time" {
			return true // pointer-receiver marshaler held by value in a map: not addressable
		}
		return hasByteSliceOrValueMarshalerInMap(e, seen)
	case reflect.Struct:
		for i := 0; i < t.NumField(); i++ {
			if hasByteSliceOrValueMarshalerInMap(t.Field(i).Type, seen) {
				return true
			}
		}
	}
	return false
}

// HasNilMap reports whether a value contains a nil map (outside the domain).
func HasNilMap(v reflect.Value) bool {
	switch v.Kind() {
	case reflect.Map:
		if v.IsNil() {
			return true
		}
		it := v.MapRange()
		for it.Next() {
			if HasNilMap(it.Value()) {
				return true
			}
		}
	case reflect.Pointer, reflect.Interface:
		if v.IsNil() {
			return false
		}
		return HasNilMap(v.Elem())
	case reflect.Slice, reflect.Array:
		for i := 0; i < v.Len(); i++ {
			if HasNilMap(v.Index(i)) {
				return true
			}
		}
	case reflect.Struct:
		if gen.IsMarshalerType(v.Type()) {
			return false
		}
		for i := 0; i < v.NumField(); i++ {
			if v.Type().Field(i).IsExported() && HasNilMap(v.Field(i)) {
				return true
			}
		}
	}
	return false
}

// Encode marshals v through a pointer (so that pointer-receiver marshalers are
// called, as the domain requires).
func Encode(v reflect.Value) ([]byte, error) {
	p := reflect.New(v.Type())
	p.Elem().Set(v)
	return json.Marshal(p.Interface())
}

func Run(r *ev.Run) {
	thorough := r.Tier == "thorough"
	ts := Types(thorough)
	limit := 40
	if thorough {
		limit = 200
	}
	r.Rule("G-type: every composition of depth<=3 of pointer/slice/array/map constructors over 19 basic and named types; every struct of <=2 fields (thorough: all pairs, 3 fields on a stride) over a 21-type field pool x 11-tag pool (reflect.StructOf); a declared catalogue (embedding by value/pointer, depth 2, shadowing in both orders, name collisions, tagged embedded structs, marshaler types, ...); " +
		"x the value enumeration per type (zero/min/max/+-1 per integer kind, nil/non-nil pointers, nil/empty/1/2/5-element slices, maps with 0/1/2 entries, any in {nil,1.5,\"s\",[]any,map,true}; full product for small structs, otherwise single and pairwise deviations). Each value is marshalled by encoding/json and validated against ForType(T); types with their own MarshalJSON (string / boolean / array encodings) are used in every position together with TypeSchemas entries in Type form, Types form and Types-with-null form. Non-trivial = a (type, value) pair whose type is in the plain-data domain; pairs are distinct by construction")
	r.Assume("encoding/json is the oracle", "outside the domain: nil maps, []byte, ',string', pointer-receiver marshalers held by value in a map, nil embedded pointers, recursive and unsupported types (C16/C10)")
	r.Set("types", len(ts))
	inDom := 0
	par.For(len(ts), r.Expired, func(i int, j par.Journal) {
		t := ts[i]
		if !InDomain(t) {
			return
		}
		key := "ForType(" + t.Desc + ")"
		if r.OnlyKey != "" && len(r.OnlyKey) >= len(key) && r.OnlyKey[:len(key)] != key {
			return
		}
		j.Begin(key)
		defer j.End()
		var s *jsonschema.Schema
		var rs *jsonschema.Resolved
		var err error
		if p := par.Call(func() {
			s, err = jsonschema.ForType(t.Type, nil)
			if err == nil {
				rs, err = s.Resolve(nil)
			}
		}); p != "" {
			r.Fail(key, map[string]any{"class": "panic", "panic": p})
			return
		}
		if err != nil {
			r.Fail(key, map[string]any{"class": "For/Resolve error for a plain-data type", "error": err.Error()})
			return
		}
		n := 0
		for _, v := range gen.Values(t.Type, limit) {
			if HasNilMap(v) {
				continue
			}
			b, err := Encode(v)
			if err != nil {
				continue // encoding/json refuses the value
			}
			var inst any
			if err := json.Unmarshal(b, &inst); err != nil {
				continue
			}
			vkey := key + " ⊢ " + string(b)
			if r.OnlyKey != "" && r.OnlyKey != vkey {
				continue
			}
			ok, p := drive.Verdict(rs, inst)
			n++
			if p != "" || !ok {
				verr := ""
				if p == "" {
					verr = fmt.Sprint(rs.Validate(inst))
					if len(verr) > 300 {
						verr = verr[:300]
					}
				}
				sb, _ := json.Marshal(s)
				r.Fail(vkey, map[string]any{"class": "encoding rejected by inferred schema", "schema": string(sb), "error": verr, "panic": p})
			}
		}
		r.Eval(n)
		r.NontrivialN(n)
		r.Hist("types_by_class", t.Class, 1)
		if i%499 == 0 {
			r.Sample(map[string]any{"type": t.Desc, "values": n})
		}
	})
	_ = inDom
	userMarshalers(r, limit)
}

// userMarshalers: types with their own MarshalJSON are in the domain together with a TypeSchemas
// entry; the encodings of values that hold them in every position must validate.
func userMarshalers(r *ev.Run, limit int) {
	cel, flag, stamp := reflect.TypeOf(gen.Celsius(0)), reflect.TypeOf(gen.Flag{}), reflect.TypeOf(gen.Stamp{})
	optSets := []struct {
		name string
		ts   func() map[reflect.Type]*jsonschema.Schema
	}{
		{"Type form", func() map[reflect.Type]*jsonschema.Schema {
			return map[reflect.Type]*jsonschema.Schema{cel: {Type: "string"}, flag: {Type: "boolean"}, stamp: {Type: "array", Items: &jsonschema.Schema{Type: "integer"}}}
		}},
		{"Types form", func() map[reflect.Type]*jsonschema.Schema {
			return map[reflect.Type]*jsonschema.Schema{cel: {Types: []string{"string"}}, flag: {Types: []string{"boolean", "string"}}, stamp: {Types: []string{"array"}}}
		}},
		{"Types form with null", func() map[reflect.Type]*jsonschema.Schema {
			return map[reflect.Type]*jsonschema.Schema{cel: {Types: []string{"null", "string"}}, flag: {Types: []string{"boolean", "null"}}, stamp: {Types: []string{"array", "null"}}}
		}},
	}
	types := []reflect.Type{reflect.TypeOf(gen.UserTypes{}), reflect.TypeOf([]gen.UserTypes{}), reflect.TypeOf(map[string]*gen.UserTypes{}), cel, reflect.PointerTo(cel), reflect.TypeOf([]*gen.Flag{}), reflect.TypeOf(struct {
		gen.UserTypes
		X *gen.Stamp `json:"x"`
	}{})}
	for _, t := range types {
		for _, o := range optSets {
			key := "ForType(" + t.String() + ", TypeSchemas for user marshalers: " + o.name + ")"
			if r.OnlyKey != "" && len(r.OnlyKey) >= len(key) && r.OnlyKey[:len(key)] != key {
				continue
			}
			var s *jsonschema.Schema
			var rs *jsonschema.Resolved
			var err error
			if p := par.Call(func() {
				s, err = jsonschema.ForType(t, &jsonschema.ForOptions{TypeSchemas: o.ts()})
				if err == nil {
					rs, err = s.Resolve(nil)
				}
			}); p != "" {
				r.Fail(key, map[string]any{"class": "panic", "panic": p})
				continue
			}
			if err != nil {
				r.Fail(key, map[string]any{"class": "For/Resolve error for a plain-data type", "error": err.Error()})
				continue
			}
			n := 0
			for _, v := range gen.Values(t, limit) {
				if HasNilMap(v) {
					continue
				}
				b, err := Encode(v)
				if err != nil {
					continue
				}
				var inst any
				if json.Unmarshal(b, &inst) != nil {
					continue
				}
				vkey := key + " ⊢ " + string(b)
				if r.OnlyKey != "" && r.OnlyKey != vkey {
					continue
				}
				n++
				if ok, p := drive.Verdict(rs, inst); p != "" || !ok {
					sb, _ := json.Marshal(s)
					r.Fail(vkey, map[string]any{"class": "encoding rejected by inferred schema", "schema": string(sb), "error": fmt.Sprint(rs.Validate(inst)), "panic": p})
				}
			}
			r.Eval(n)
			r.NontrivialN(n)
			r.Add("user_marshaler_values", int64(n))
		}
	}
}
