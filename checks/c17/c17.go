// Package c17 decides C17: every subschema location is addressable by
// "#"+RFC 6901 pointer, and pointers that name no subschema make Resolve fail.
package c17

import (
	"encoding/json"
	"fmt"
	"github.com/google/jsonschema-go/jsonschema"
	"math/big"
	"os"
	"regexp"
	"strconv"
	"strings"

	"verif/internal/drive"
	"verif/internal/ev"
	"verif/internal/par"
	"verif/internal/ref"
)

// independent keyword table (written from the two specifications)
var (
	single2020 = []string{"not", "if", "then", "else", "items", "contains", "additionalProperties", "propertyNames", "unevaluatedItems", "unevaluatedProperties", "contentSchema"}
	array2020  = []string{"allOf", "anyOf", "oneOf", "prefixItems"}
	map2020    = []string{"$defs", "properties", "patternProperties", "dependentSchemas"}
	single07   = []string{"not", "if", "then", "else", "additionalItems", "contains", "additionalProperties", "propertyNames", "contentSchema"}
	array07    = []string{"allOf", "anyOf", "oneOf", "items"}
	map07      = []string{"definitions", "properties", "patternProperties", "dependencies"}
	keyAlpha   = []string{"", "/", "~", "~0", "~1", "~01", "~2", "%", "%25", " ", "é", "0", "1", "01", "-", "+0", "a/b", "a~b", "#", "?", "a", "A", "$defs", "properties", "\"", "\\", "a b/c~d%e", "items", "type", "not", "allOf", "dependencies", "10"}
)

// arrayLen: allOf gets 12 elements (two-digit indices), the other arrays 3.
func arrayLen(k string) int {
	if k == "allOf" {
		return 12
	}
	return 3
}

type loc struct {
	ptr    string // RFC 6901 pointer relative to the container
	marker int
}

// container renders a schema holding a marked subschema at every location, and
// returns the locations. nested, if non-nil, gives extra keywords for the
// marked subschema at a location (used for depth 2).
func container(d ref.Draft, next *int, nested func(marker int) string) (string, []loc) {
	singles, arrays, maps := single2020, array2020, map2020
	if d == ref.D07 {
		singles, arrays, maps = single07, array07, map07
	}
	var parts []string
	var locs []loc
	mk := func(ptr string) string {
		*next++
		m := *next
		locs = append(locs, loc{ptr, m})
		extra := ""
		if nested != nil {
			extra = nested(m)
		}
		return fmt.Sprintf(`{"const":%d%s}`, m, extra)
	}
	for _, k := range singles {
		parts = append(parts, fmt.Sprintf(`%q:%s`, k, mk("/"+ref.PointerEscape(k))))
	}
	for _, k := range arrays {
		var es []string
		for i := 0; i < arrayLen(k); i++ {
			es = append(es, mk(fmt.Sprintf("/%s/%d", k, i)))
		}
		parts = append(parts, fmt.Sprintf(`%q:[%s]`, k, strings.Join(es, ",")))
	}
	for _, k := range maps {
		var es []string
		for _, key := range keyAlpha {
			if k == "patternProperties" {
				if _, err := regexp.Compile(key); err != nil {
					continue
				}
			}
			kb, _ := json.Marshal(key)
			es = append(es, fmt.Sprintf(`%s:%s`, kb, mk("/"+ref.PointerEscape(k)+"/"+ref.PointerEscape(key))))
		}
		if k == "dependencies" {
			es = append(es, `"strs":["a","b"]`)
		}
		parts = append(parts, fmt.Sprintf(`%q:{%s}`, k, strings.Join(es, ",")))
	}
	// non-schema members that pointers must not select
	parts = append(parts, `"type":["integer","string"]`, `"required":["a"]`, `"enum":[{"const":1},1]`, `"const":{"not":{}}`, `"default":{"const":1}`, `"examples":[{}]`, `"title":"t"`, `"x-unknown":{"const":1}`)
	if d == ref.D2020 {
		parts = append(parts, `"dependentRequired":{"a":["b"]}`)
	}
	return "{" + strings.Join(parts, ",") + "}", locs
}

type doc struct {
	text    string
	want    int // marker expected (0 = Resolve must fail)
	draft   ref.Draft
	desc    string
	markers []int
}

// loadedDocs: for the cases that need a Loader, the documents it serves (retrieval URI -> text),
// keyed by draft and description; the root is then retrieved from http://h/root.json.
var loadedDocs = map[string]map[string]string{}

func mkDoc(d ref.Draft, cont string, frag string) string {
	fb, _ := json.Marshal("#" + frag)
	if d == ref.D07 {
		return fmt.Sprintf(`{"$schema":"http://json-schema.org/draft-07/schema#","definitions":{"c":%s},"allOf":[{"$ref":%s}]}`, cont, fb)
	}
	return fmt.Sprintf(`{"$defs":{"c":%s},"$ref":%s}`, cont, fb)
}

// mkDocEmb places the reference inside an embedded resource r that holds the container; the
// document root holds a decoy container with other markers under the same pointer text.
func mkDocEmb(d ref.Draft, cont, decoy, frag string) string {
	fb, _ := json.Marshal("#" + frag)
	if d == ref.D07 {
		return fmt.Sprintf(`{"$schema":"http://json-schema.org/draft-07/schema#","definitions":{"r":{"$id":"http://h/r.json","definitions":{"c":%s},"allOf":[{"$ref":%s}]},"c":%s},"allOf":[{"$ref":"#/definitions/r"}]}`, cont, fb, decoy)
	}
	return fmt.Sprintf(`{"$defs":{"r":{"$id":"http://h/r.json","$defs":{"c":%s},"$ref":%s},"c":%s},"$ref":"#/$defs/r"}`, cont, fb, decoy)
}

// mkDocLoaded: the container sits in a resource r.json that is EMBEDDED in the loaded document
// a.json; the pointer reference to it is made from a second loaded document b.json (the root and
// a.json hold decoy containers with other markers under the same pointer text).
func mkDocLoaded(d ref.Draft, cont, decoy, frag string) (string, map[string]string) {
	fb, _ := json.Marshal("http://h/r.json#" + frag)
	if d == ref.D07 {
		return fmt.Sprintf(`{"$schema":"http://json-schema.org/draft-07/schema#","$id":"http://h/root.json","allOf":[{"$ref":"a.json#/definitions/keep"},{"$ref":"b.json"}],"definitions":{"c":%s}}`, decoy), map[string]string{
			"http://h/a.json": fmt.Sprintf(`{"definitions":{"keep":true,"r":{"$id":"http://h/r.json","definitions":{"c":%s}},"c":%s}}`, cont, decoy),
			"http://h/b.json": fmt.Sprintf(`{"allOf":[{"$ref":%s}]}`, fb),
		}
	}
	return fmt.Sprintf(`{"$id":"http://h/root.json","allOf":[{"$ref":"a.json#/$defs/keep"},{"$ref":"b.json"}],"$defs":{"c":%s}}`, decoy), map[string]string{
		"http://h/a.json": fmt.Sprintf(`{"$defs":{"keep":true,"r":{"$id":"http://h/r.json","$defs":{"c":%s}},"c":%s}}`, cont, decoy),
		"http://h/b.json": fmt.Sprintf(`{"$ref":%s}`, fb),
	}
}

// mkDocDecoy07 adds a definitions entry whose fragment-only $id is spelled like the pointer that
// is referenced: the reference is a pointer (it starts with '/') and must go to the location.
func mkDocDecoy07(cont, ptr string) string {
	fb, _ := json.Marshal("#" + ref.FragmentEncode(ptr))
	ib, _ := json.Marshal("#" + ptr)
	return fmt.Sprintf(`{"$schema":"http://json-schema.org/draft-07/schema#","definitions":{"c":%s,"zz-decoy":{"$id":%s,"const":-7}},"allOf":[{"$ref":%s}]}`, cont, ib, fb)
}

func build(thorough bool) []doc {
	var docs []doc
	for _, d := range []ref.Draft{ref.D2020, ref.D07} {
		prefix := "/$defs/c"
		if d == ref.D07 {
			prefix = "/definitions/c"
		}
		// depth 1
		n := 0
		cont, locs := container(d, &n, nil)
		var markers []int
		for _, l := range locs {
			markers = append(markers, l.marker)
		}
		for _, l := range locs {
			p := prefix + l.ptr
			docs = append(docs, doc{mkDoc(d, cont, ref.FragmentEncode(p)), l.marker, d, "valid " + p, markers})
			if raw := rawFragment(p); raw != ref.FragmentEncode(p) && raw != "" {
				docs = append(docs, doc{mkDoc(d, cont, raw), l.marker, d, "valid(raw) " + p, markers})
			}
			// RFC 6901 section 6: the fragment is percent-decoded as a whole before it is read as a
			// pointer, so an encoded slash is a separator like any other (every 4th location)
			if len(docs)%4 == 0 {
				enc := strings.ReplaceAll(ref.FragmentEncode(p), "/", "%2F")
				docs = append(docs, doc{mkDoc(d, cont, enc), l.marker, d, "valid(every / as %2F) " + p, markers})
				if i := strings.LastIndex(ref.FragmentEncode(p), "/"); i > 0 {
					f := ref.FragmentEncode(p)
					docs = append(docs, doc{mkDoc(d, cont, f[:i]+"%2f"+f[i+1:]), l.marker, d, "valid(last / as %2f) " + p, markers})
				}
			}
		}
		if d == ref.D07 {
			for li := 0; li < len(locs); li += 6 {
				p := prefix + locs[li].ptr
				if strings.ContainsAny(p, " \"%#?\\") {
					continue // the decoy's $id must itself be a well-formed URI reference
				}
				docs = append(docs, doc{mkDocDecoy07(cont, p), locs[li].marker, d, "valid (a fragment $id elsewhere is spelled like this pointer) " + p, append(append([]int(nil), markers...), -7)})
			}
		}
		// the same pointers read from inside an embedded resource (quick: every 3rd location)
		n5 := 5000
		decoy, dlocs := container(d, &n5, nil)
		both := append([]int(nil), markers...)
		for _, l := range dlocs {
			both = append(both, l.marker)
		}
		estep := 3
		if thorough {
			estep = 1
		}
		for li := 0; li < len(locs); li += estep {
			l := locs[li]
			p := prefix + l.ptr
			docs = append(docs, doc{mkDocEmb(d, cont, decoy, ref.FragmentEncode(p)), l.marker, d, "valid (inside embedded resource) " + p, both})
		}
		docs = append(docs, doc{mkDocEmb(d, cont, decoy, ref.FragmentEncode(prefix[:len(prefix)-1]+"r")), -1, d, "invalid (inside embedded resource: names a location of the document root) " + prefix[:len(prefix)-1] + "r", both})
		// ... and from another loaded document into a resource embedded in a loaded document (every 5th location; thorough: every 2nd)
		lstep := 5
		if thorough {
			lstep = 2
		}
		for li := 0; li < len(locs); li += lstep {
			l := locs[li]
			p := prefix + l.ptr
			root, ld := mkDocLoaded(d, cont, decoy, ref.FragmentEncode(p))
			desc := "valid (pointer from a loaded document into a resource embedded in another loaded document) " + p
			loadedDocs[d.String()+" "+desc] = ld
			docs = append(docs, doc{root, l.marker, d, desc, both})
		}
		{
			root, ld := mkDocLoaded(d, cont, decoy, ref.FragmentEncode(prefix+"/nope"))
			desc := "invalid (pointer from a loaded document into an embedded resource: no such member)"
			loadedDocs[d.String()+" "+desc] = ld
			docs = append(docs, doc{root, -1, d, desc, both})
		}
		// pointers of exactly two segments: the marked subschemas sit directly in the root's $defs / definitions
		{
			kw := "$defs"
			if d == ref.D07 {
				kw = "definitions"
			}
			var es []string
			var ms []int
			type kp struct {
				key string
				m   int
			}
			var kps []kp
			for i, key := range keyAlpha {
				kb, _ := json.Marshal(key)
				es = append(es, fmt.Sprintf(`%s:{"const":%d}`, kb, 9000+i))
				ms = append(ms, 9000+i)
				kps = append(kps, kp{key, 9000 + i})
			}
			flat := func(frag string) string {
				fb, _ := json.Marshal("#" + frag)
				if d == ref.D07 {
					return fmt.Sprintf(`{"$schema":"http://json-schema.org/draft-07/schema#","definitions":{%s},"allOf":[{"$ref":%s}]}`, strings.Join(es, ","), fb)
				}
				return fmt.Sprintf(`{"$defs":{%s},"$ref":%s}`, strings.Join(es, ","), fb)
			}
			for _, x := range kps {
				p := "/" + ref.PointerEscape(kw) + "/" + ref.PointerEscape(x.key)
				docs = append(docs, doc{flat(ref.FragmentEncode(p)), x.m, d, "valid (two segments) " + p, ms})
			}
			other := "definitions"
			if d == ref.D07 {
				other = "$defs"
			}
			for _, bad := range []string{"/" + other + "/a", "/" + other + "/", "/" + other + "/A", "/" + other,
				"/" + kw + "/~", "/" + kw + "/~2", "/" + kw + "/a~b", "/" + kw + "/missing", "/" + kw + "/a/", "/" + kw, "/" + kw + "/", "/" + strings.ToUpper(kw) + "/a"} {
				want := -1
				if bad == "/"+kw+"/" {
					want = 9000 // the empty key exists
				}
				docs = append(docs, doc{flat(ref.FragmentEncode(bad)), want, d, "two segments " + bad, ms})
			}
		}
		// invalid pointers
		for _, l := range locs {
			for _, bad := range mutate(l.ptr) {
				p := prefix + bad
				docs = append(docs, doc{mkDoc(d, cont, ref.FragmentEncode(p)), -1, d, "invalid " + p, markers})
			}
		}
		// the other draft's spelling of the definitions container names nothing here
		wrong := "/definitions/c"
		if d == ref.D07 {
			wrong = "/$defs/c"
		}
		for _, l := range locs {
			if len(docs)%5 == 0 {
				docs = append(docs, doc{mkDoc(d, cont, ref.FragmentEncode(wrong+l.ptr)), -1, d, "invalid (sibling spelling of the container) " + wrong + l.ptr, markers})
			}
		}
		docs = append(docs, doc{mkDoc(d, cont, ref.FragmentEncode(wrong)), -1, d, "invalid (sibling spelling of the container) " + wrong, markers},
			doc{mkDoc(d, cont, ref.FragmentEncode(prefix+wrong+"/not")), -1, d, "invalid (sibling spelling, nested) " + prefix + wrong + "/not", markers})
		for _, bad := range []string{"/type", "/type/0", "/required", "/required/0", "/enum", "/enum/0", "/const", "/const/not", "/default", "/examples/0", "/title", "/x-unknown",
			"/properties", "/allOf", "/$defs", "/definitions", "/dependencies/strs", "/dependencies/strs/0", "/dependentRequired/a", "/dependentRequired/a/0",
			"/Defs/a", "/PropertyOrder", "/AllOf/0", "/Not", "/Extra", "/Items", "/ItemsArray/0", "/DependencySchemas/a", "/PrefixItems/0", "/$vocabulary/x", "/$vocabulary",
			"/nope", "/", "//", "/not/", "/not/not", "/not/allOf/0", "/not/properties/a", "/not/items/0", "/not/items", "/not/dependencies/a", "/not/$defs/a", "/contains/0", "/if/then", "/allOf/0/allOf/0", "/properties/a/properties/a",
			// '~' not followed by 0 or 1 is not an RFC 6901 escape; the keys "~", "~2", "a~b" exist, so a lenient reading would select them
			"/properties/~", "/properties/~2", "/properties/a~b", "/properties/~x", "/properties/a~", "/patternProperties/~2", "/$defs/~", "/definitions/~", "/$defs/~2", "/definitions/a~b", "/dependentSchemas/~", "/dependencies/~2", "/~0not", "/no~t", "/allOf/0/", "/allOf//0", "/properties/a/b", "/$id", "/$ref", "/$anchor"} {
			p := prefix + bad
			docs = append(docs, doc{mkDoc(d, cont, ref.FragmentEncode(p)), -1, d, "invalid " + p, markers})
		}
		// depth 2: a nested container under $defs/c (definitions/c) of every location (quick: a subset)
		step := 7
		if thorough {
			step = 1
		}
		for li := 0; li < len(locs); li += step {
			n2 := 0
			var inner []loc
			target := li
			idx := -1
			cont2, locs2 := container(d, &n2, func(m int) string {
				idx++
				if idx != target {
					return ""
				}
				m2 := 1000
				c3, l3 := container(d, &m2, nil)
				inner = l3
				if d == ref.D07 {
					return `,"definitions":{"c":` + c3 + `}`
				}
				return `,"$defs":{"c":` + c3 + `}`
			})
			var ms []int
			for _, l := range locs2 {
				ms = append(ms, l.marker)
			}
			for _, l := range inner {
				ms = append(ms, l.marker)
			}
			for _, l := range inner {
				p := prefix + locs2[target].ptr + prefix + l.ptr
				docs = append(docs, doc{mkDoc(d, cont2, ref.FragmentEncode(p)), l.marker, d, "valid depth2 " + p, ms})
			}
		}
	}
	return docs
}

// rawFragment returns the pointer as a raw fragment when only non-ASCII bytes
// would need escaping (the URI grammar forbids raw '%', ' ', '"', '#', '\').
func rawFragment(p string) string {
	hasHigh := false
	for i := 0; i < len(p); i++ {
		c := p[i]
		if c >= 0x80 {
			hasHigh = true
			continue
		}
		if strings.IndexByte("%\" #\\", c) >= 0 {
			return ""
		}
	}
	if !hasHigh {
		return ""
	}
	return p
}

// mutate returns pointers derived from a valid one that name no subschema.
func mutate(p string) []string {
	var out []string
	segs := strings.Split(p[1:], "/")
	last := segs[len(segs)-1]
	head := "/" + strings.Join(segs[:len(segs)-1], "/")
	if len(segs) == 1 {
		head = ""
	}
	isIdx := len(segs) == 2 && (segs[0] == "allOf" || segs[0] == "anyOf" || segs[0] == "oneOf" || segs[0] == "prefixItems" || segs[0] == "items")
	if isIdx {
		n := arrayLen(segs[0])
		for _, bad := range []string{fmt.Sprint(n), fmt.Sprint(n + 1), "0" + last, last + "0", "1" + last + "0", "03", "00", "-", "+0", "-0", "+1", " 0", "0 ", "0x0", "1e0", "0.0", "", "٠", "9223372036854775808", "18446744073709551616", "-1"} {
			if v, err := strconv.Atoi(bad); err == nil && strconv.Itoa(v) == bad && v >= 0 && v < n {
				continue // a canonical index inside the array is a valid pointer
			}
			out = append(out, head+"/"+bad)
		}
		out = append(out, p+"/", p+"/0")
	} else if len(segs) == 2 {
		out = append(out, head+"/"+ref.PointerEscape(unescape(last)+"x"), head+"/missing", head+"/"+ref.PointerEscape(unescape(last))+"/")
	} else {
		out = append(out, "/"+strings.ToUpper(last), "/"+strings.ToLower(last)+"X", "/"+strings.ToUpper(last[:1])+last[1:])
		if l := strings.ToLower(last); l != last {
			out = append(out, "/"+l)
		}
	}
	return out
}

func unescape(s string) string {
	return strings.ReplaceAll(strings.ReplaceAll(s, "~1", "/"), "~0", "~")
}

func Run(r *ev.Run) {
	docs := build(r.Tier == "thorough")
	r.Rule("for both drafts: a container schema with a uniquely marked subschema under every schema-valued, schema-array-valued (indices 0..2, allOf 0..11) and schema-map-valued keyword (33-key alphabet incl. keyword-like names 'items', 'type', 'not', 'allOf', 'dependencies', '', '/', '~', '~0', '~01', '%', '%25', ' ', non-ASCII, digits, '-', quotes) is referenced by '#'+percent-encoded RFC 6901 pointer (raw non-ASCII form, and with slashes written as %2F); also as pointers of exactly two segments into a root-level $defs / definitions map that holds the whole key alphabet; nested to depth 2; " +
		"also from inside an embedded $id resource whose pointers must be read relative to that resource while the document root holds a decoy container with other markers, and from one Loader document into a resource that is embedded in another Loader document (decoys in the root and in the embedding document); plus every invalid mutation (index = length, a digit prepended or appended, pointers through absent containers, leading zeros, '-', signs, spaces, non-decimal digits, overflow, trailing slash, bad '~' escape, wrong letter case, Go field names, non-schema members). Valid pointers must select exactly the marked subschema (verdict vector over all markers), invalid ones must make Resolve fail. Documents are distinct by construction; every one is non-trivial")
	r.Assume("the pointer of a location is built from the independent keyword table with RFC 6901 escaping and RFC 3986 fragment encoding (internal/ref/uri.go); R1 must agree with the constructed expectation (else harness error)")
	r.Set("documents", len(docs))
	par.For(len(docs), r.Expired, func(i int, j par.Journal) {
		d := docs[i]
		key := d.draft.String() + " " + d.desc
		if r.OnlyKey != "" && r.OnlyKey != key {
			return
		}
		// oracle agreement (R1 vs construction)
		base := ""
		var opts *jsonschema.ResolveOptions
		loaded := loadedDocs[key]
		if loaded != nil {
			base = "http://h/root.json"
			opts = &jsonschema.ResolveOptions{BaseURI: base, Loader: (&drive.MapLoader{Docs: loaded}).Load}
		}
		u, err := ref.NewUniverseD(d.text, base, loaded, nil, ref.D2020)
		if err != nil {
			fmt.Fprintln(os.Stderr, "HARNESS-ERROR c17: oracle cannot index", d.text, err)
			os.Exit(2)
		}
		cerr := u.Closure()
		if (cerr != nil) != (d.want < 0) {
			fmt.Fprintf(os.Stderr, "HARNESS-ERROR c17: R1 (%v) disagrees with the constructed expectation (%d) on %s\n", cerr, d.want, key)
			os.Exit(2)
		}
		j.Begin(key)
		defer j.End()
		rs, stage, ierr := drive.Compile(d.text, opts)
		r.Eval(1)
		r.NontrivialN(1)
		if i%499 == 0 {
			r.Sample(map[string]any{"case": key, "want_marker": d.want, "ref": d.text[strings.LastIndex(d.text, `"$ref"`):]})
		}
		if stage == "panic" || stage == "unmarshal" {
			r.Fail(key, map[string]any{"class": stage, "error": ierr.Error(), "doc": d.text})
			return
		}
		if d.want < 0 {
			if stage == "" {
				// which marker did it select?
				sel := []int{}
				for _, m := range d.markers {
					if ok, _ := drive.Verdict(rs, float64(m)); ok {
						sel = append(sel, m)
					}
				}
				r.Fail(key, map[string]any{"class": "invalid pointer accepted", "selected_markers": sel, "ref": d.text[strings.LastIndex(d.text, `"$ref"`):]})
			}
			return
		}
		if stage != "" {
			r.Fail(key, map[string]any{"class": "valid pointer refused", "error": ierr.Error(), "ref": d.text[strings.LastIndex(d.text, `"$ref"`):]})
			return
		}
		for _, m := range append([]int{0}, d.markers...) {
			got, p := drive.Verdict(rs, float64(m))
			want := m == d.want
			if r1 := u.Validate(&ref.Val{K: ref.Num, N: ratOf(m)}); r1.Valid != want {
				fmt.Fprintf(os.Stderr, "HARNESS-ERROR c17: R1 verdict disagrees with construction on %s marker %d\n", key, m)
				os.Exit(2)
			}
			if p != "" || got != want {
				r.Fail(key, map[string]any{"class": "wrong target", "want_marker": d.want, "instance": m, "impl_valid": got, "panic": p})
				break
			}
		}
		r.Eval(len(d.markers))
	})
}

func ratOf(m int) *big.Rat { return new(big.Rat).SetInt64(int64(m)) }
