// Package c11 decides C11: Equal is JSON value equality, over all ordered pairs
// (and triples of a subset) of represented values of G-rep.
package c11

import (
	"encoding/json"
	"fmt"
	"os"

	"github.com/google/jsonschema-go/jsonschema"

	"verif/internal/ev"
	"verif/internal/gen"
	"verif/internal/par"
	"verif/internal/ref"
)

var poolTexts = []string{
	`null`, `true`, `false`,
	`0`, `1`, `-1`, `1.5`, `0.5`, `0.1`, `255`, `256`,
	`9007199254740992`, `9007199254740993`, `9223372036854775807`, `9223372036854775808`, `18446744073709551615`, `-9223372036854775808`,
	`""`, `"a"`, `"1"`, `"true"`, `"null"`, "\"é\"", "\"é\"",
	`[]`, `[1]`, `[2]`, `[1,2]`, `[2,1]`, `[1,"a"]`, `[[1]]`, `[[2]]`, `[[1,2]]`, `[[]]`, `[null]`, `[1,1]`, `["1"]`, `[true]`, `[{}]`, `[9007199254740992]`, `[9007199254740993]`,
	`{}`, `{"a":1}`, `{"a":2}`, `{"b":1}`, `{"a":1,"b":2}`, `{"a":1,"b":3}`, `{"a":[1]}`, `{"a":null}`, "{\"é\":1}", "{\"é\":1}", `{"a":"1"}`, `{"a":{}}`, `{"a":1.5}`, `{"a":{"b":1}}`, `{"a":{"b":2}}`, `{"a":[1,{"b":null}]}`, `{"a":[1,{"b":0}]}`,
}

// Item is one represented value.
type Item struct {
	X     any
	Desc  string
	Canon string
}

type item = Item

// Items builds the represented-value set R (shared with C12's hash law).
func Items(thorough bool) ([]item, error) {
	dev := 1
	if thorough {
		dev = 2
	}
	var items []item
	seen := map[string]bool{}
	add := func(x any, desc string) error {
		if seen[desc] {
			return nil
		}
		seen[desc] = true
		c, ok := ref.CanonGo(x)
		if !ok {
			return fmt.Errorf("generator produced an out-of-domain value %s", desc)
		}
		// R2 is built two independent ways; they must agree (float32 values whose
		// shortest decimal is not their exact value are judged by exact value).
		if c2, ok2 := ref.CanonViaMarshal(x); ok2 && c2 != c && !hasInexactFloat32(x) {
			return fmt.Errorf("R2 constructions disagree on %s: reflect %s, marshal %s", desc, c, c2)
		}
		items = append(items, item{X: x, Desc: desc, Canon: c})
		return nil
	}
	for _, t := range poolTexts {
		v := ref.MustParse(t)
		d := dev
		if v.Nodes() > 3 {
			d = 1
		}
		for _, rp := range gen.Reps(v, 1, d, gen.RepOpts{}) {
			if err := add(rp.V, rp.Desc); err != nil {
				return nil, err
			}
		}
	}
	// values that are not the decoding of a pool text: binary approximations of 0.1
	f32 := float32(0.1)
	f64 := 0.1
	extras := []any{f32, f64, float64(f32), &f32, []any{f32}, []float32{f32}, []any{f64}, map[string]any{"a": f32}, map[string]float64{"a": f64}, json.Number("0.10"), json.Number("1E-1"),
		// numbers far outside the float64 range are numbers all the same (and not the strings they are spelled with)
		json.Number("1e400"), json.Number("10e399"), json.Number("1E+400"), json.Number("1e-400"), json.Number("10e-401"), json.Number("2e400"), "1e400", []any{json.Number("1e400")}, map[string]any{"a": json.Number("10e399")}}
	// slices that share a backing array with another value of the set (aliasing
	// between the two sides must not matter: only the JSON value does)
	all := []any{float64(1), float64(2), float64(3)}
	ints := []int{1, 2, 3}
	extras = append(extras, all, all[:2], all[:1], all[:0], all[1:], ints, ints[:2], ints[:0],
		map[string]any{"k": all}, map[string]any{"k": all[:2]}, []any{all}, []any{all[:2]}, &all)
	// values whose parts are prefixes of one backing array (on each side its own array): a comparison
	// that remembers pairs of data pointers must not confuse a prefix with the longer slice
	b12, b13, b12c := []any{float64(1), float64(2)}, []any{float64(1), float64(3)}, []any{float64(1), float64(2)}
	i12, i13 := []int{1, 2}, []int{1, 3}
	extras = append(extras, []any{b12[:1], b12[:2]}, []any{b13[:1], b13[:2]}, []any{b12c[:1], b12c}, []any{[]any{float64(1)}, []any{float64(1), float64(3)}},
		[]any{i12[:1], i12}, []any{i13[:1], i13}, map[string]any{"a": b12[:1], "b": b12}, map[string]any{"a": b13[:1], "b": b13}, [][]int{i12[:1], i12}, [][]int{i13[:1], i13})
	for i, x := range extras {
		d := gen.Describe(x)
		if seen[d] {
			d += fmt.Sprintf(" /*extra %d: shares a backing array*/", i)
		}
		if err := add(x, d); err != nil {
			return nil, err
		}
	}
	return items, nil
}

func hasInexactFloat32(x any) bool {
	c1, _ := ref.CanonGo(x)
	b, err := json.Marshal(x)
	if err != nil {
		return false
	}
	v, err := ref.Parse(string(b))
	return err == nil && v.Canon() != c1
}

func Run(r *ev.Run) {
	thorough := r.Tier == "thorough"
	items, err := Items(thorough)
	if err != nil {
		fmt.Fprintln(os.Stderr, "HARNESS-ERROR", err)
		os.Exit(2)
	}
	n := len(items)
	r.Rule("every ordered pair (x,y) of the represented-value set R = G-rep(pool) is executed on jsonschema.Equal and compared with R2 canonical equality; " +
		"a pair is non-trivial when the two sides differ in Go representation (description); pairs are distinct by construction. Triples over a subset check transitivity/symmetry directly.")
	r.Assume("R2 (reference JSON equality) is correct: built by reflection and by json.Marshal+UseNumber, the two agree on every value",
		"nil slices, nil maps, structs and NaN are outside the domain")
	r.Set("represented_values", n)
	r.Set("pool_values", len(poolTexts))
	classes := map[string]bool{}
	for _, it := range items {
		classes[it.Canon] = true
	}
	r.Set("distinct_json_values", len(classes))

	par.For(n, r.Expired, func(i int, j par.Journal) {
		x := items[i]
		nt := 0
		for k := 0; k < n; k++ {
			y := items[k]
			key := "Equal(" + x.Desc + ", " + y.Desc + ")"
			if r.OnlyKey != "" && r.OnlyKey != key {
				continue
			}
			want := x.Canon == y.Canon
			var got bool
			j.Begin(key)
			p := par.Call(func() { got = jsonschema.Equal(x.X, y.X) })
			j.End()
			if x.Desc != y.Desc {
				nt++
			}
			if p != "" {
				r.Fail(key, map[string]any{"class": "panic", "want": want, "panic": p})
			} else if got != want {
				r.Fail(key, map[string]any{"class": "wrong", "want": want, "got": got, "canon_x": x.Canon, "canon_y": y.Canon})
			}
			if (i*n+k)%200003 == 0 {
				r.Sample(map[string]any{"call": key, "want": want, "got": got})
			}
		}
		r.Eval(n)
		r.NontrivialN(nt)
	})

	// triples over a subset: one representative per (json value, deviation class)
	var sub []item
	perClass := map[string]int{}
	for _, it := range items {
		if perClass[it.Canon] < 2 {
			perClass[it.Canon]++
			sub = append(sub, it)
		}
	}
	if len(sub) > 110 {
		sub = sub[:110]
	}
	m := len(sub)
	r.Set("triple_subset", m)
	var trip int64
	par.For(m, r.Expired, func(i int, j par.Journal) {
		cnt := 0
		for k := 0; k < m; k++ {
			var exy, eyx bool
			if p := par.Call(func() { exy = jsonschema.Equal(sub[i].X, sub[k].X); eyx = jsonschema.Equal(sub[k].X, sub[i].X) }); p != "" {
				continue // reported by the pair pass
			}
			if exy != eyx {
				r.Fail("symmetry("+sub[i].Desc+", "+sub[k].Desc+")", map[string]any{"class": "asymmetric", "xy": exy, "yx": eyx})
			}
			if !exy {
				continue
			}
			for l := 0; l < m; l++ {
				var eyz, exz bool
				if p := par.Call(func() { eyz = jsonschema.Equal(sub[k].X, sub[l].X); exz = jsonschema.Equal(sub[i].X, sub[l].X) }); p != "" {
					continue
				}
				cnt++
				if eyz && !exz {
					r.Fail("transitivity("+sub[i].Desc+", "+sub[k].Desc+", "+sub[l].Desc+")", map[string]any{"class": "intransitive"})
				}
			}
		}
		r.Add("triples_checked", int64(cnt))
		_ = trip
	})
}
