// Package c15 decides C15: ApplyDefaults only adds declared defaults, is
// idempotent, never fills required properties; ValidateDefaults checks them.
package c15

import (
	"encoding/json"
	"fmt"
	"reflect"
	"strings"
	"sync/atomic"

	"github.com/google/jsonschema-go/jsonschema"

	"verif/internal/drive"
	"verif/internal/ev"
	"verif/internal/gen"
	"verif/internal/par"
	"verif/internal/ref"
)

var leafDefaults = []string{"", `1`, `"s"`, `null`, `{}`, `{"a":5}`, `[1]`, `{"a":{"b":[1]}}`, `[[1],{"k":[2]}]`}

func node(def string, req string, props string, typ string) string {
	var parts []string
	if typ != "" {
		parts = append(parts, `"type":"`+typ+`"`)
	}
	if def != "" {
		parts = append(parts, `"default":`+def)
	}
	if props != "" {
		parts = append(parts, `"properties":{`+props+`}`)
	}
	if req != "" {
		parts = append(parts, `"required":[`+req+`]`)
	}
	return "{" + strings.Join(parts, ",") + "}"
}

func propsOf(a, b string) string {
	var ps []string
	if a != "" {
		ps = append(ps, `"a":`+a)
	}
	if b != "" {
		ps = append(ps, `"b":`+b)
	}
	return strings.Join(ps, ",")
}

var reqs = []string{"", `"a"`, `"b"`, `"a","b"`}

// Schemas enumerates default-bearing properties trees of depth <= 3 over {a,b}.
func Schemas(thorough bool) []string {
	seen := map[string]bool{}
	var out []string
	add := func(s string) {
		if !seen[s] {
			seen[s] = true
			out = append(out, s)
		}
	}
	var leaves []string // "" = absent
	for _, d := range leafDefaults {
		if d == "" {
			leaves = append(leaves, "", `{}`, `{"type":"integer"}`)
		} else {
			leaves = append(leaves, node(d, "", "", ""))
		}
	}
	// depth 2
	var d2 []string
	for _, a := range leaves {
		for _, b := range leaves {
			if a == "" && b == "" {
				continue
			}
			for _, rq := range reqs {
				for _, own := range []string{"", `{}`, `{"b":"s"}`, `1`} {
					n := node(own, rq, propsOf(a, b), "")
					d2 = append(d2, n)
					if own == "" {
						add(n)
					}
				}
			}
		}
	}
	// depth 3: root{a: depth-2 node, b: leaf}
	stride := 7
	if thorough {
		stride = 1
	}
	rootLeaves := []string{"", node(`1`, "", "", ""), node(`{}`, "", "", ""), node(`{"a":5}`, "", "", "")}
	for i := 0; i < len(d2); i += stride {
		for _, b := range rootLeaves {
			for _, rq := range reqs {
				add(node("", rq, propsOf(d2[i], b), "object"))
			}
		}
	}
	// depth 4 spine: defaults only at the bottom, with/without required on the way
	for _, rq := range reqs[:2] {
		for _, rq2 := range reqs[:2] {
			for _, d := range leafDefaults[1:] {
				add(node("", "", propsOf(node("", rq, propsOf(node("", rq2, propsOf(node(d, "", "", ""), ""), ""), ""), ""), ""), ""))
				// a sibling default next to the spine, at the top and in the middle
				add(node("", "", propsOf(node("", rq, propsOf(node("", rq2, propsOf(node(d, "", "", ""), ""), ""), node(`1`, "", "", "")), ""), node(`"s"`, "", "", "")), ""))
			}
		}
	}
	// a missing container whose subschema has several object-valued properties, only one of which
	// leads to a default (two levels further down): the container is needed whichever is looked at first
	for _, names := range [][3]string{{"a", "b", "c"}, {"b", "a", "c"}, {"c", "b", "a"}} {
		x, y, z := names[0], names[1], names[2]
		add(`{"properties":{"a":{"properties":{"` + x + `":{"properties":{"a":{"type":"integer"}}},"` + y + `":{"properties":{"b":{"default":1}}}}}}}`)
		add(`{"properties":{"a":{"properties":{"` + x + `":{"properties":{"a":{"type":"integer"}}},"` + y + `":{"properties":{"b":{"properties":{"a":{"default":[1]}}}}},"` + z + `":{"properties":{"c":{}}}}},"b":{"default":"s"}}}`)
		add(`{"properties":{"b":{"required":["` + z + `"],"properties":{"` + x + `":{"properties":{"a":{}}},"` + y + `":{"properties":{"b":{"default":{"a":5}}}},"` + z + `":{"properties":{"a":{"default":1}}}}}}}`)
	}
	// properties / required / default beside a $ref, in both drafts (draft-07 ignores the siblings of
	// $ref when validating; the required set still says what ApplyDefaults must not fill), at the root
	// and one level down
	for _, pre := range []string{`"$schema":"http://json-schema.org/draft-07/schema#","definitions":{"x":{}},"$ref":"#/definitions/x",`, `"$defs":{"x":{}},"$ref":"#/$defs/x",`, `"$schema":"http://json-schema.org/draft-07/schema#",`} {
		hd := pre
		if i := strings.Index(pre, `"$ref"`); i >= 0 {
			hd = pre[:i] // the definitions stay at the root
		}
		ref := strings.TrimPrefix(pre, hd)
		for _, rq := range reqs {
			req := ""
			if rq != "" {
				req = `,"required":[` + rq + `]`
			}
			add(`{` + pre + `"properties":{"a":{"default":1},"b":{"default":"s"}}` + req + `}`)
			add(`{` + hd + `"properties":{"a":{` + ref + `"properties":{"a":{"default":1},"b":{"default":{"a":5}}}` + req + `},"b":{"default":{}}}}`)
			add(`{` + hd + `"properties":{"a":{` + ref + `"default":{},"properties":{"a":{"default":1},"b":{"default":[1]}}` + req + `}}}`)
		}
	}
	return out
}

// Instances enumerates JSON values of depth <= 2 (plus selected depth 3) over keys {a,b,c}.
func Instances() []string {
	leaves := []string{`1`, `"s"`, `null`, `[]`, `{}`}
	var d1 []string
	opts := append([]string{""}, leaves...)
	for _, a := range opts {
		for _, b := range opts {
			for _, c := range opts {
				var ps []string
				if a != "" {
					ps = append(ps, `"a":`+a)
				}
				if b != "" {
					ps = append(ps, `"b":`+b)
				}
				if c != "" {
					ps = append(ps, `"c":`+c)
				}
				d1 = append(d1, "{"+strings.Join(ps, ",")+"}")
			}
		}
	}
	out := append([]string(nil), leaves...)
	out = append(out, d1...)
	for i, x := range d1 {
		if i%3 == 0 {
			out = append(out, `{"a":`+x+`}`, `{"a":`+x+`,"b":1}`, `{"b":`+x+`}`)
		}
		if i%11 == 0 {
			out = append(out, `{"a":{"a":`+x+`}}`, `{"a":{"b":`+x+`,"a":{}}}`)
		}
	}
	out = append(out, `[{"a":1}]`, `[{}]`)
	seen := map[string]bool{}
	var u []string
	for _, x := range out {
		if !seen[x] {
			seen[x] = true
			u = append(u, x)
		}
	}
	return u
}

// poison overwrites every container reachable from x in place.
func poison(x any) {
	switch v := x.(type) {
	case map[string]any:
		for _, e := range v {
			poison(e)
		}
		for k := range v {
			if _, isC := v[k].(map[string]any); !isC {
				if _, isS := v[k].([]any); !isS {
					v[k] = "scribbled"
				}
			}
		}
		v["scribble"] = true
	case []any:
		for i, e := range v {
			poison(e)
			if _, isC := e.(map[string]any); !isC {
				if _, isS := e.([]any); !isS {
					v[i] = "scribbled"
				}
			}
		}
	}
}

func toVal(x any) (*ref.Val, error) {
	if v, err := ref.FromPlain(x); err == nil {
		return v, nil
	}
	// typed containers: through their JSON encoding
	b, err := json.Marshal(x)
	if err != nil {
		return nil, err
	}
	return ref.Parse(string(b))
}

func Run(r *ev.Run) {
	thorough := r.Tier == "thorough"
	schemas := Schemas(thorough)
	insts := Instances()
	r.Rule("default-bearing properties trees of depth<=3 (+depth-4 spines) over names {a,b}: per node default in {absent,1,\"s\",null,{},{\"a\":5},[1],{\"a\":{\"b\":[1]}},[[1],{\"k\":[2]}]}, required subsets, typed/untyped leaves x every JSON value of depth<=2 over keys {a,b,c} with leaves {1,\"s\",null,[],{}} plus selected depth 3, passed as *any, *map[string]any, *map[MyKey]any and (objects of objects) *map[string]map[string]any / *map[string]map[MyKey]any. " +
		"Histories (explored exhaustively per pair): apply; apply.apply (idempotence); apply.scribble-over-the-result.apply(fresh instance) must equal the first result; apply.delete(k).apply for every top-level key k the first apply inserted, then apply again. Every apply step is judged by the R4 laws from the state it started in. ValidateDefaults: Resolve(ValidateDefaults) succeeds iff R1 validates every default against its declaring subschema (also for defaults under items/allOf/$defs/additionalProperties, and for pairs of subschemas with the same type and default text but different constraints, in both orders and 7 placements). states = distinct (schema, instance-state) pairs reached, transitions = ApplyDefaults/Validate/Resolve calls. Non-trivial = the first apply inserted something")
	r.Assume("R4 laws: present values untouched, nothing inserted for a required name, inserted value = declared default lawfully completed, or a container holding >=1 inserted default; the laws do not oblige a default to be filled",
		"struct targets and nil maps are outside the domain; no $dynamicRef in the ValidateDefaults space")
	r.Set("schemas", len(schemas))
	r.Set("instances", len(insts))
	zeroValuesPresent(r)
	var states, transitions, confl atomic.Int64
	par.For(len(schemas), r.Expired, func(si int, j par.Journal) {
		text := schemas[si]
		u, err := ref.NewUniverse(text, "", nil, nil)
		if err != nil || u.Closure() != nil {
			r.Add("oracle_rejects", 1)
			return
		}
		rs, stage, cerr := drive.Compile(text, nil)
		if stage != "" {
			r.Fail(text, map[string]any{"class": stage, "error": cerr.Error()})
			return
		}
		root := u.Root.Root
		apply := func(key string, target any, before *ref.Val) (*ref.Val, bool) {
			var aerr error
			if p := par.Call(func() { aerr = rs.ApplyDefaults(target) }); p != "" {
				r.Fail(key, map[string]any{"class": "panic", "panic": p})
				return nil, false
			}
			transitions.Add(1)
			if aerr != nil {
				if strings.Contains(key, "[*map[string]map[") && strings.Contains(aerr.Error(), "cannot unmarshal") {
					// the element type of the caller's map cannot hold the declared default: the caller's mismatch
					r.Add("typed_target_cannot_hold_default", 1)
					return nil, false
				}
				r.Fail(key, map[string]any{"class": "ApplyDefaults error", "error": aerr.Error()})
				return nil, false
			}
			after, err := toVal(target)
			if err != nil {
				r.Fail(key, map[string]any{"class": "result does not marshal", "error": err.Error()})
				return nil, false
			}
			if _, lerr := ref.Lawful(root, before, after); lerr != nil {
				r.Fail(key, map[string]any{"class": "law", "before": before.JSON(), "after": after.JSON(), "violated": lerr.Error()})
				return after, false
			}
			return after, true
		}
		for _, it := range insts {
			key := text + " <- " + it
			if r.OnlyKey != "" && !strings.HasPrefix(r.OnlyKey, key) {
				continue
			}
			j.Begin(key)
			before := ref.MustParse(it)
			for _, mode := range []string{"*any", "*map[string]any", "*map[MyKey]any", "*map[string]map[string]any", "*map[string]map[MyKey]any"} {
				var target any
				var x any = before.Plain()
				typed := false
				switch mode {
				case "*any":
					target = &x
				case "*map[string]any":
					m, ok := x.(map[string]any)
					if !ok {
						continue
					}
					target = &m
				case "*map[MyKey]any":
					m, ok := x.(map[string]any)
					if !ok || (!thorough && si%2 != 0) {
						continue
					}
					conv := map[gen.MyKey]any{}
					for k, v := range m {
						conv[gen.MyKey(k)] = v
					}
					target, typed = &conv, true
				default:
					// typed element maps: only for instances whose members are all objects (quick: every 4th schema)
					m, ok := x.(map[string]any)
					if !ok || len(m) == 0 || (!thorough && si%4 != 0) {
						continue
					}
					c1 := map[string]map[string]any{}
					c2 := map[string]map[gen.MyKey]any{}
					for k, v := range m {
						vm, isObj := v.(map[string]any)
						if !isObj {
							ok = false
							break
						}
						c1[k] = vm
						c2[k] = map[gen.MyKey]any{}
						for kk, vv := range vm {
							c2[k][gen.MyKey(kk)] = vv
						}
					}
					if !ok {
						continue
					}
					if mode == "*map[string]map[string]any" {
						target = &c1
					} else {
						target = &c2
					}
					typed = true
				}
				k1 := key + " [" + mode + "] apply"
				after, ok := apply(k1, target, before)
				states.Add(1)
				r.Eval(1)
				if !ok {
					continue
				}
				if after.Canon() != before.Canon() {
					r.NontrivialN(1)
				}
				// idempotence
				after2, ok := apply(k1+".apply", target, after)
				if ok && after2.Canon() != after.Canon() {
					r.Fail(k1+".apply", map[string]any{"class": "not idempotent", "first": after.JSON(), "second": after2.JSON()})
				}
				if typed {
					continue // the histories below edit plain containers
				}
				// the caller scribbles over every container of the result (it owns them); a fresh
				// instance completed from the same Resolved must still get the declared defaults
				if after.Canon() != before.Canon() {
					poison(reflect.ValueOf(target).Elem().Interface())
					var z any = before.Plain()
					var t3 any = &z
					if mode != "*any" {
						m := z.(map[string]any)
						t3 = &m
					}
					states.Add(1)
					a5, ok := apply(k1+".scribble.apply(fresh)", t3, before)
					if ok && a5.Canon() != after.Canon() {
						r.Fail(k1+".scribble.apply(fresh)", map[string]any{"class": "state leaks between calls", "first": after.JSON(), "fresh_after_scribble": a5.JSON()})
					}
					// restore the target for the histories below
					var w any = after.Plain()
					if mode == "*any" {
						target = &w
					} else {
						m := w.(map[string]any)
						target = &m
					}
				}
				// delete every inserted top-level key, apply again
				if after.K == ref.Obj && before.K == ref.Obj {
					for _, k := range after.Keys {
						if _, was := before.O[k]; was {
							continue
						}
						var y any = after.Plain()
						m := y.(map[string]any)
						delete(m, k)
						st, _ := toVal(m)
						var t2 any = &y
						states.Add(1)
						a3, ok := apply(k1+".delete("+k+").apply", t2, st)
						if ok {
							if a3.Canon() != after.Canon() {
								confl.Add(1)
							}
							a4, ok := apply(k1+".delete("+k+").apply.apply", t2, a3)
							if ok && a4.Canon() != a3.Canon() {
								r.Fail(k1+".delete("+k+").apply.apply", map[string]any{"class": "not idempotent", "first": a3.JSON(), "second": a4.JSON()})
							}
						}
					}
				}
			}
			j.End()
		}
		if si%499 == 0 {
			r.Sample(map[string]any{"schema": text, "instances": len(insts)})
		}
	})
	r.Set("confluence_mismatches_triage_only", confl.Load())

	// ValidateDefaults
	vd := vdSchemas(schemas)
	r.Set("validate_defaults_schemas", len(vd))
	par.For(len(vd), r.Expired, func(i int, j par.Journal) {
		text := vd[i]
		key := "ValidateDefaults " + text
		if r.OnlyKey != "" && r.OnlyKey != key {
			return
		}
		u, err := ref.NewUniverse(text, "", nil, nil)
		if err != nil || u.Closure() != nil {
			r.Add("oracle_rejects", 1)
			return
		}
		want, werr := u.DefaultsValid()
		if werr != nil {
			r.Add("oracle_no_opinion", 1)
			return
		}
		var s jsonschema.Schema
		if err := json.Unmarshal([]byte(text), &s); err != nil {
			r.Fail(key, map[string]any{"class": "unmarshal", "error": err.Error()})
			return
		}
		var rerr error
		if p := par.Call(func() { _, rerr = s.Resolve(&jsonschema.ResolveOptions{ValidateDefaults: true}) }); p != "" {
			r.Fail(key, map[string]any{"class": "panic", "panic": p})
			return
		}
		transitions.Add(1)
		r.Eval(1)
		r.NontrivialN(1)
		if (rerr == nil) != want {
			r.Fail(key, map[string]any{"class": "ValidateDefaults", "all_defaults_valid": want, "resolve_error": fmt.Sprint(rerr)})
		}
	})
	r.Set("states", states.Load())
	r.Set("transitions", transitions.Load())
	r.Set("traces_validated_against_impl", states.Load())
}

// vdSchemas: the apply trees plus defaults under other keywords and defaults
// that violate / satisfy their own subschema in every keyword group.
// zeroValuesPresent: a property that is present with the zero value of the map's element type
// (0, "", false, an empty map) is present: ApplyDefaults leaves it alone and fills only the others.
func zeroValuesPresent(r *ev.Run) {
	type tc struct {
		schema string
		mk     func() any
		want   string
	}
	cases := []tc{
		{`{"properties":{"a":{"default":5},"b":{"default":7}}}`, func() any { return &map[string]int{"a": 0} }, `{"a":0,"b":7}`},
		{`{"properties":{"a":{"default":"x"},"b":{"default":"y"}}}`, func() any { return &map[string]string{"a": ""} }, `{"a":"","b":"y"}`},
		{`{"properties":{"a":{"default":true},"b":{"default":true}}}`, func() any { return &map[string]bool{"b": false} }, `{"a":true,"b":false}`},
		{`{"properties":{"a":{"default":1.5},"b":{"default":2.5}}}`, func() any { return &map[gen.MyKey]float64{"a": 0, "b": 0} }, `{"a":0,"b":0}`},
		{`{"properties":{"o":{"properties":{"a":{"default":5},"b":{"default":7}}}}}`, func() any { return &map[string]map[string]int{"o": {"a": 0}} }, `{"o":{"a":0,"b":7}}`},
		{`{"properties":{"o":{"default":{"k":1},"properties":{"a":{"default":5}}}}}`, func() any { return &map[string]map[string]int{"o": {}} }, `{"o":{"a":5}}`},
		{`{"properties":{"a":{"default":[1]},"b":{"default":[2]}}}`, func() any { return &map[string][]int{"a": {}} }, `{"a":[],"b":[2]}`},
		{`{"properties":{"a":{"default":5},"b":{"default":7}}}`, func() any { var m any = map[string]any{"a": 0.0, "b": nil}; return &m }, `{"a":0,"b":null}`},
	}
	n := 0
	for _, c := range cases {
		rs, stage, err := drive.Compile(c.schema, nil)
		if stage != "" {
			r.Fail(c.schema, map[string]any{"class": stage, "error": err.Error()})
			continue
		}
		t := c.mk()
		key := fmt.Sprintf("zero values present: %s <- %s", c.schema, gen.Describe(t))
		if r.OnlyKey != "" && r.OnlyKey != key {
			continue
		}
		n++
		for round := 0; round < 2; round++ { // the second application must change nothing either
			var aerr error
			if p := par.Call(func() { aerr = rs.ApplyDefaults(t) }); p != "" || aerr != nil {
				r.Fail(key, map[string]any{"class": "ApplyDefaults failed", "panic": p, "error": fmt.Sprint(aerr)})
				break
			}
			b, _ := json.Marshal(t)
			if got, _ := ref.Parse(string(b)); got == nil || got.Canon() != ref.MustParse(c.want).Canon() {
				r.Fail(key, map[string]any{"class": "a present zero value was treated as missing (or a missing one not filled)", "round": round, "want": c.want, "got": string(b)})
				break
			}
		}
	}
	r.Eval(n)
	r.NontrivialN(n)
	r.Set("zero_value_cases", n)
}

func vdSchemas(trees []string) []string {
	out := append([]string(nil), trees...)
	subs := []string{`{"type":"integer"}`, `{"type":"string"}`, `{"enum":[1,2]}`, `{"const":0}`, `{"not":{}}`, `{"minimum":2}`, `{"type":"object","required":["a"]}`, `{"items":{"type":"integer"}}`, `{"type":["integer","null"]}`, `{"properties":{"a":{"type":"integer"}}}`, `{}`, `{"maxLength":1}`}
	defs := []string{`null`, `0`, `1`, `2`, `"s"`, `"ss"`, `{}`, `{"a":1}`, `{"a":"x"}`, `[1]`, `["x"]`, `true`}
	wrap := []string{`%s`, `{"properties":{"p":%s}}`, `{"items":%s}`, `{"allOf":[%s]}`, `{"$defs":{"d":%s}}`, `{"additionalProperties":%s}`, `{"properties":{"p":{"properties":{"q":%s}}}}`, `{"anyOf":[{"type":"integer"},%s]}`, `{"not":%s}`, `{"prefixItems":[true,%s]}`, `{"if":%s}`, `{"properties":{"ok":{"default":1,"type":"integer"},"p":%s}}`}
	for _, s := range subs {
		for _, d := range defs {
			with := `{"default":` + d + `}`
			if s != `{}` {
				with = `{"default":` + d + "," + s[1:]
			}
			for _, w := range wrap {
				out = append(out, fmt.Sprintf(w, with))
			}
		}
	}
	// defaults next to $ref, under conditional / dependent / contains keywords, and in draft-07 documents
	for _, d := range []string{`1`, `"s"`, `null`, `{"a":"x"}`} {
		for _, w := range []string{
			`{"$defs":{"i":{"type":"integer"}},"properties":{"p":{"$ref":"#/$defs/i","default":%s}}}`,
			`{"$defs":{"i":{"type":"integer","default":%s}},"properties":{"p":{"$ref":"#/$defs/i"}}}`,
			`{"$defs":{"o":{"properties":{"a":{"type":"integer"}}}},"$ref":"#/$defs/o","default":%s}`,
			`{"$defs":{"num":{"type":["integer","string","object"]}},"properties":{"p":{"$ref":"#/$defs/num","maximum":0,"maxLength":0,"maxProperties":0,"default":%s}}}`,
			`{"$defs":{"num":{"type":["integer","string","object"]}},"$ref":"#/$defs/num","not":{"type":"integer"},"default":%s}`,
			`{"if":{"type":"object"},"then":{"type":"integer","default":%s}}`,
			`{"if":true,"else":{"type":"integer","default":%s}}`,
			`{"dependentSchemas":{"a":{"type":"integer","default":%s}}}`,
			`{"contains":{"type":"integer","default":%s}}`,
			`{"propertyNames":{"maxLength":0,"default":%s}}`,
			`{"unevaluatedProperties":{"type":"integer","default":%s}}`,
			`{"patternProperties":{"^a":{"type":"integer","default":%s}}}`,
			`{"oneOf":[{"type":"integer","default":%s},{"type":"string"}]}`,
			`{"$schema":"http://json-schema.org/draft-07/schema#","properties":{"p":{"type":"integer","default":%s}}}`,
			`{"$schema":"http://json-schema.org/draft-07/schema#","definitions":{"i":{"type":"integer"}},"properties":{"p":{"$ref":"#/definitions/i","default":%s}}}`,
			`{"$schema":"http://json-schema.org/draft-07/schema#","items":[{"type":"integer","default":%s}],"additionalItems":{"type":"string","default":%s}}`,
			`{"$schema":"http://json-schema.org/draft-07/schema#","dependencies":{"a":{"type":"integer","default":%s}}}`,
			`{"properties":{"p":{"type":"integer","default":%s,"properties":{"q":{"type":"string","default":%s}}}}}`,
		} {
			out = append(out, strings.ReplaceAll(w, "%s", d))
		}
	}
	// draft-07 documents whose defaults sit on non-root subschemas that use draft-specific keywords
	for _, w := range []string{
		`{"$schema":"http://json-schema.org/draft-07/schema#","properties":{"p":{"items":[{"type":"integer"}],"default":%s}}}`,
		`{"$schema":"http://json-schema.org/draft-07/schema#","properties":{"p":{"items":[{"type":"integer"}],"additionalItems":false,"default":%s}}}`,
		`{"$schema":"http://json-schema.org/draft-07/schema#","properties":{"p":{"dependencies":{"a":["b"]},"default":%s}}}`,
		`{"$schema":"http://json-schema.org/draft-07/schema#","definitions":{"i":{"type":["integer","array","object"]}},"properties":{"p":{"$ref":"#/definitions/i","type":"string","default":%s}}}`,
		`{"$schema":"http://json-schema.org/draft-07/schema#","items":{"definitions":{"k":{"$id":"#k","type":"integer"}},"items":[{"$ref":"#k"}],"default":%s}}`,
		`{"properties":{"p":{"prefixItems":[{"type":"integer"}],"default":%s}}}`,
		`{"properties":{"p":{"dependentRequired":{"a":["b"]},"default":%s}}}`,
	} {
		for _, d := range []string{`["x"]`, `[1]`, `[1,"x"]`, `{"a":1}`, `{"a":1,"b":2}`, `1`, `"s"`} {
			out = append(out, strings.ReplaceAll(w, "%s", d))
		}
	}
	// two subschemas with the same type keyword and byte-identical default text but different
	// further constraints, in both orders and in several placements
	type fam struct {
		typ, def string
		cons     []string
	}
	fams := []fam{
		{`"type":"integer",`, `1`, []string{``, `,"minimum":2`, `,"maximum":5`, `,"enum":[2]`, `,"const":1`}},
		{``, `1`, []string{``, `,"minimum":2`, `,"type":"string"`, `,"const":1`}},
		{`"type":"string",`, `"s"`, []string{``, `,"maxLength":0`, `,"pattern":"^s"`, `,"enum":["t"]`}},
		{`"type":"object",`, `{"a":1}`, []string{``, `,"required":["b"]`, `,"properties":{"a":{"type":"string"}}`, `,"maxProperties":3`}},
		{`"type":["array","null"],`, `[1]`, []string{``, `,"maxItems":0`, `,"items":{"type":"string"}`, `,"minItems":1`}},
	}
	places := []string{`{"properties":{"a":%s,"b":%s}}`, `{"allOf":[%s,%s]}`, `{"$defs":{"x":%s,"y":%s}}`, `{"items":%s,"additionalProperties":%s}`, `{"properties":{"a":{"properties":{"z":%s}},"b":%s}}`, `{"properties":{"p":%s},"patternProperties":{"^q":%s}}`, `{"prefixItems":[%s,{"not":%s}]}`}
	for _, f := range fams {
		for _, c1 := range f.cons {
			for _, c2 := range f.cons {
				if c1 == c2 {
					continue
				}
				x := `{` + f.typ + `"default":` + f.def + c1 + `}`
				y := `{` + f.typ + `"default":` + f.def + c2 + `}`
				for _, pl := range places {
					out = append(out, fmt.Sprintf(pl, x, y))
				}
			}
		}
	}
	return out
}
