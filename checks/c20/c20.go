// Package c20 decides C20: CloneSchemas yields an equal and fully independent
// schema tree.
package c20

import (
	"encoding/json"
	"fmt"
	"os"
	"reflect"

	"github.com/google/jsonschema-go/jsonschema"

	"verif/internal/ev"
	"verif/internal/gen"
	"verif/internal/par"
)

func objects(s *jsonschema.Schema, out *[]*jsonschema.Schema, seen map[*jsonschema.Schema]bool) {
	if s == nil || seen[s] {
		return
	}
	seen[s] = true
	*out = append(*out, s)
	v := reflect.ValueOf(s).Elem()
	for i := 0; i < v.NumField(); i++ {
		switch x := v.Field(i).Interface().(type) {
		case *jsonschema.Schema:
			objects(x, out, seen)
		case []*jsonschema.Schema:
			for _, c := range x {
				objects(c, out, seen)
			}
		case map[string]*jsonschema.Schema:
			for _, k := range sortedKeys(x) {
				objects(x[k], out, seen)
			}
		}
	}
}

func sortedKeys(m map[string]*jsonschema.Schema) []string {
	ks := make([]string, 0, len(m))
	for k := range m {
		ks = append(ks, k)
	}
	for i := 1; i < len(ks); i++ {
		for j := i; j > 0 && ks[j] < ks[j-1]; j-- {
			ks[j], ks[j-1] = ks[j-1], ks[j]
		}
	}
	return ks
}

// fresh returns a new non-zero value for a field type.
func fresh(t reflect.Type) reflect.Value {
	one := 1
	f := 1.5
	var a any = "MUT"
	switch t.String() {
	case "string":
		return reflect.ValueOf("MUT")
	case "bool":
		return reflect.ValueOf(true)
	case "*int":
		return reflect.ValueOf(&one)
	case "*float64":
		return reflect.ValueOf(&f)
	case "*interface {}":
		return reflect.ValueOf(&a)
	case "[]interface {}":
		return reflect.ValueOf([]any{"MUT"})
	case "[]string":
		return reflect.ValueOf([]string{"MUT"})
	case "json.RawMessage":
		return reflect.ValueOf(json.RawMessage(`"MUT"`))
	case "map[string]bool":
		return reflect.ValueOf(map[string]bool{"MUT": true})
	case "map[string]interface {}":
		return reflect.ValueOf(map[string]any{"x-mut": "MUT"})
	case "map[string][]string":
		return reflect.ValueOf(map[string][]string{"MUT": {"m"}})
	case "*jsonschema.Schema":
		return reflect.ValueOf(&jsonschema.Schema{Title: "MUT"})
	case "[]*jsonschema.Schema":
		return reflect.ValueOf([]*jsonschema.Schema{{Title: "MUT"}})
	case "map[string]*jsonschema.Schema":
		return reflect.ValueOf(map[string]*jsonschema.Schema{"MUT": {Title: "MUT"}})
	}
	return reflect.Value{}
}

func marshal(s *jsonschema.Schema) (string, error) {
	b, err := json.Marshal(s)
	return string(b), err
}

func Run(r *ev.Run) {
	if err := gen.CheckFieldTable(); err != nil {
		fmt.Fprintln(os.Stderr, "HARNESS-ERROR c20:", err)
		os.Exit(2)
	}
	trees := gen.Trees(r.Tier == "thorough")
	r.Rule("G-goschema trees: every schema-valued / array-valued / map-valued field (23, incl. the draft-07 ones) nil / empty / empty with spare capacity / 1 / 2 children, nested to depth 2 under every field with every field (depth 3 on a stride), and every pair of fields. Every node carries every kind of non-schema field (Types, Const, Default, Examples, Enum, numeric pointers, DependentRequired, the string form of dependencies next to the schema form, PropertyOrder, Extra, booleans and strings). Per tree: (1) Marshal(clone)==Marshal(orig) and reflect.DeepEqual(clone, orig); (2) Schema pointer sets disjoint, nil stays nil and empty stays empty; (3) a parent holding both resolves; (4) for every Schema object of either tree and every exported field: assign a fresh value, insert into every schema map, append to every schema slice — the other tree's JSON must not change. Non-trivial = every tree (distinct by construction)")
	r.Assume("slices and maps of non-schema values are shared by design: only assignment of whole fields is tested for them", "the field table is independent of reflection over Schema and cross-checked against it")
	r.Set("trees", len(trees))
	par.For(len(trees), r.Expired, func(i int, j par.Journal) {
		orig, desc := trees[i]()
		key := "CloneSchemas(" + desc + ")"
		if r.OnlyKey != "" && r.OnlyKey != key {
			return
		}
		j.Begin(key)
		defer j.End()
		var clone *jsonschema.Schema
		if p := par.Call(func() { clone = orig.CloneSchemas() }); p != "" {
			r.Fail(key, map[string]any{"class": "panic", "panic": p})
			return
		}
		r.Eval(1)
		r.NontrivialN(1)
		fail := func(class, msg string) { r.Fail(key+" ["+class+"]", map[string]any{"class": class, "detail": msg}) }
		mo, err1 := marshal(orig)
		mc, err2 := marshal(clone)
		if err1 != nil || err2 != nil {
			fail("marshal error", fmt.Sprint(err1, err2))
			return
		}
		if mo != mc {
			fail("clone marshals differently", mo+" vs "+mc)
		}
		if !reflect.DeepEqual(orig, clone) {
			fail("clone not deeply equal", mo)
		}
		var oo, co []*jsonschema.Schema
		objects(orig, &oo, map[*jsonschema.Schema]bool{})
		objects(clone, &co, map[*jsonschema.Schema]bool{})
		inO := map[*jsonschema.Schema]bool{}
		for _, o := range oo {
			inO[o] = true
		}
		for _, c := range co {
			if inO[c] {
				fail("shared Schema object", mo)
				break
			}
		}
		if len(oo) == len(co) {
			for k := range oo {
				vo, vc := reflect.ValueOf(oo[k]).Elem(), reflect.ValueOf(co[k]).Elem()
				for f := 0; f < vo.NumField(); f++ {
					fo, fc := vo.Field(f), vc.Field(f)
					switch fo.Kind() {
					case reflect.Slice, reflect.Map, reflect.Pointer:
						if fo.IsNil() != fc.IsNil() {
							fail("nil-ness changed", vo.Type().Field(f).Name)
						}
					}
				}
			}
		} else {
			fail("object count differs", fmt.Sprint(len(oo), len(co)))
		}
		if _, err := (&jsonschema.Schema{AllOf: []*jsonschema.Schema{orig, clone}}).Resolve(nil); err != nil {
			fail("joint parent does not resolve", err.Error())
		}
		// (4) independence under mutation, both directions
		for dir, pair := range [][2]*jsonschema.Schema{{clone, orig}, {orig, clone}} {
			mut, other := pair[0], pair[1]
			otherBefore, _ := marshal(other)
			var objs []*jsonschema.Schema
			objects(mut, &objs, map[*jsonschema.Schema]bool{})
			for oi, o := range objs {
				if len(objs) > 40 && oi%9 != 0 && oi != len(objs)-1 {
					continue // large trees: every 9th object and the last one
				}
				v := reflect.ValueOf(o).Elem()
				for f := 0; f < v.NumField(); f++ {
					fv := v.Field(f)
					name := v.Type().Field(f).Name
					check := func(op string) {
						if now, _ := marshal(other); now != otherBefore {
							fail("mutation leaks", fmt.Sprintf("dir=%d object %d field %s op %s: other tree changed from %s to %s", dir, oi, name, op, otherBefore, now))
						}
					}
					old := reflect.New(fv.Type()).Elem()
					old.Set(fv)
					// element-level operations on schema containers
					switch x := fv.Interface().(type) {
					case map[string]*jsonschema.Schema:
						if x != nil {
							x["MUT-insert"] = &jsonschema.Schema{Title: "MUT"}
							check("map insert")
							delete(x, "MUT-insert")
							for _, k := range sortedKeys(x) {
								prev := x[k]
								x[k] = &jsonschema.Schema{Title: "MUT"}
								check("map replace")
								x[k] = prev
							}
						}
					case []*jsonschema.Schema:
						if x != nil {
							fv.Set(reflect.ValueOf(append(x, &jsonschema.Schema{Title: "MUT"})))
							check("append")
							fv.Set(old)
							for k := range x {
								prev := x[k]
								x[k] = &jsonschema.Schema{Title: "MUT"}
								check("element replace")
								x[k] = prev
							}
							// append in the other tree's corresponding slice must not show up here
						}
					}
					if nv := fresh(fv.Type()); nv.IsValid() {
						fv.Set(nv)
						check("assign")
						fv.Set(old)
					}
				}
			}
			// appends on both sides of corresponding slices (spare capacity aliasing)
			if dir == 0 && len(oo) == len(co) {
				for k := range oo {
					vo, vc := reflect.ValueOf(oo[k]).Elem(), reflect.ValueOf(co[k]).Elem()
					for f := 0; f < vo.NumField(); f++ {
						so, ok := vo.Field(f).Interface().([]*jsonschema.Schema)
						if !ok || so == nil {
							continue
						}
						sc := vc.Field(f).Interface().([]*jsonschema.Schema)
						a, b := &jsonschema.Schema{Title: "A"}, &jsonschema.Schema{Title: "B"}
						nc := append(sc, a)
						no := append(so, b)
						if len(nc) > 0 && nc[len(nc)-1] != a {
							fail("append aliasing", fmt.Sprintf("object %d field %s: appending to the original overwrote the clone's appended element", k, vo.Type().Field(f).Name))
						}
						_ = no
					}
				}
			}
		}
		if i%997 == 0 {
			r.Sample(map[string]any{"tree": desc, "json": mo})
		}
	})
}
