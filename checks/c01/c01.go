// Package c01 decides C01: Validate agrees with the draft 2020-12 validity
// relation on every schema of G-schema/2020 x the instance pool.
package c01

import (
	"encoding/json"
	"fmt"
	"os"

	"verif/internal/drive"
	"verif/internal/ev"
	"verif/internal/gen"
	"verif/internal/par"
	"verif/internal/ref"
)

// CheckMeta aborts (harness error) if a generated document is not meta-schema-valid.
func CheckMeta(list []string, d ref.Draft, prefix func(string) string) {
	m, err := ref.NewMeta("/repo", d)
	if err != nil {
		fmt.Fprintln(os.Stderr, "HARNESS-ERROR meta-schema:", err)
		os.Exit(2)
	}
	bad := make([]bool, len(list))
	par.For(len(list), nil, func(i int, _ par.Journal) {
		t := list[i]
		if prefix != nil {
			t = prefix(t)
		}
		bad[i] = !m.Valid(t)
	})
	n := 0
	for i, b := range bad {
		if b {
			if n < 10 {
				fmt.Fprintf(os.Stderr, "HARNESS-ERROR generator emitted a document that is not meta-schema-valid: %s\n", list[i])
			}
			n++
		}
	}
	if n > 0 {
		os.Exit(2)
	}
}

func Run(r *ev.Run) {
	thorough := r.Tier == "thorough"
	set := gen.Schemas2020(thorough)
	pool := drive.StdPool()
	r.Rule("every schema document of G-schema/2020 (pools P0 atoms, P1 applicator forms, P2 keyword pairs, P3 family triples, P4 nesting, $ref/$defs/$anchor, recursion) goes through Unmarshal->Resolve->Validate for every pool instance and is compared with reference validator R1; " +
		"a (schema, instance) pair is non-trivial when R1 evaluated at least one keyword that applies to the instance's type; schemas are de-duplicated by text and the pool has no duplicates")
	r.Assume("R1 implements draft 2020-12 (validated on the 1,099 official cases at start-up)",
		"multipleOf is compared only on (divisor, instance) pairs inside the exactness domain",
		"every generated document is meta-schema-valid (checked with R1 against the bundled meta-schema)")
	if n, bad, err := ref.CheckSuite("/repo"); err != nil || len(bad) > 0 {
		fmt.Fprintf(os.Stderr, "HARNESS-ERROR R1 fails the official suite: %v %v\n", err, bad)
		os.Exit(2)
	} else {
		r.Set("oracle_suite_cases_passed", n)
	}
	CheckMeta(set.List, ref.D2020, nil)
	r.Set("schemas", len(set.List))
	r.Set("pools", set.SortedPools())
	r.Set("instances", len(pool))
	done := par.For(len(set.List), r.Expired, func(i int, j par.Journal) {
		drive.Against(r, j, set.List[i], pool, drive.Opt{Draft: ref.D2020})
		if i%997 == 0 {
			r.Sample(map[string]any{"schema": set.List[i], "instances": len(pool)})
		}
	})
	r.Set("schemas_executed", done)
	// G-uneval (shared with C07): validity in the presence of unevaluated*.
	for _, props := range []bool{true, false} {
		us := gen.Uneval(props, thorough)
		insts := drive.MkPool(gen.Vals(gen.UnevalArrays()...))
		name := "uneval_array_schemas"
		if props {
			insts = drive.MkPool(gen.Vals(gen.UnevalObjects()...))
			name = "uneval_object_schemas"
		}
		CheckMeta(us.List, ref.D2020, nil)
		r.Set(name, len(us.List))
		par.For(len(us.List), r.Expired, func(i int, j par.Journal) {
			drive.Against(r, j, us.List[i], insts, drive.Opt{Draft: ref.D2020})
		})
	}
	// single-document schemas with $dynamicRef (shared with C06): the two-scope roots, in which one
	// call reaches the same $dynamicRef through two dynamic scopes, and the extra families
	var dyn []*gen.Universe
	gen.DynTwoScope(func(u *gen.Universe) {
		if len(u.Docs) == 0 {
			dyn = append(dyn, u)
		}
	})
	gen.DynExtra(func(u *gen.Universe) {
		if len(u.Docs) == 0 {
			dyn = append(dyn, u)
		}
	})
	r.Set("dynamic_reference_schemas", len(dyn))
	par.For(len(dyn), r.Expired, func(i int, j par.Journal) {
		if !thorough && i%3 != 0 {
			return
		}
		drive.Against(r, j, dyn[i].Root, drive.MkPool(gen.Vals(dyn[i].Insts...)), drive.Opt{Draft: ref.D2020, BaseURI: dyn[i].Base, Prefix: "dyn "})
	})
	signedZeros(r)
}

// signedZeros: encoding/json decodes the texts -0, -0.0 and -0e3 to the float64 negative zero,
// which is the number 0 for every keyword (equal to 0 under const / enum / uniqueItems, a
// multiple of everything, not below a minimum of 0).
func signedZeros(r *ev.Run) {
	schemas := []string{`{"uniqueItems":true}`, `{"items":{"uniqueItems":true}}`, `{"const":0}`, `{"enum":[[0]]}`, `{"const":-0.0}`, `{"items":{"const":{"a":0}}}`, `{"minimum":0}`, `{"exclusiveMaximum":0}`, `{"multipleOf":2}`, `{"type":"integer"}`, `{"contains":{"const":0},"minContains":2}`, `{"properties":{"a":{"enum":[0,1]}},"additionalProperties":false}`}
	texts := []string{`-0`, `-0.0`, `-0e3`, `[0,-0]`, `[-0.0,0]`, `[[0],[-0]]`, `[{"a":0},{"a":-0.0}]`, `{"a":-0}`, `[-0]`, `[0,1,-0e0]`}
	n := 0
	for _, st := range schemas {
		rs, stage, err := drive.Compile(st, nil)
		if stage != "" {
			r.Fail(st, map[string]any{"class": stage, "error": err.Error()})
			continue
		}
		u, uerr := ref.NewUniverse(st, "", nil, nil)
		if uerr != nil || u.Closure() != nil {
			continue
		}
		for _, t := range texts {
			var x any
			if err := json.Unmarshal([]byte(t), &x); err != nil { // the canonical decoding keeps the sign of the zero
				continue
			}
			key := "signed zero: " + st + " ⊢ " + t
			if r.OnlyKey != "" && r.OnlyKey != key {
				continue
			}
			want := u.Validate(ref.MustParse(t))
			got, p := drive.Verdict(rs, x)
			n++
			if p != "" || (!want.Undefined && got != want.Valid) {
				r.Fail(key, map[string]any{"class": "verdict", "impl_valid": got, "spec_valid": want.Valid, "panic": p})
			}
		}
	}
	r.Eval(n)
	r.NontrivialN(n)
	r.Set("signed_zero_cases", n)
}
