// Package c06 decides C06: $dynamicRef follows the dynamic scope; a Resolved
// can be reused across calls (histories) without scope leaking.
package c06

import (
	"fmt"
	"os"
	"strings"
	"sync/atomic"

	"github.com/google/jsonschema-go/jsonschema"

	"verif/internal/drive"
	"verif/internal/ev"
	"verif/internal/gen"
	"verif/internal/par"
	"verif/internal/ref"
)

func Run(r *ev.Run) {
	thorough := r.Tier == "thorough"
	maxK, fullK := 4, 3
	if thorough {
		maxK, fullK = 5, 4
	}
	var us []*gen.Universe
	gen.Dyn(maxK, fullK, func(u *gen.Universe) { us = append(us, u) })
	nChain := len(us)
	gen.DynTwoScope(func(u *gen.Universe) { us = append(us, u) })
	nTwo := len(us) - nChain
	gen.DynExtra(func(u *gen.Universe) { us = append(us, u) })
	r.Rule(fmt.Sprintf("G-dyn: chains of 1..%d resources (all hop kinds up to length %d, 3 resp. 2 hop kinds beyond) (each with $dynamicAnchor n / $anchor n / none on a unique const marker) x every hop kind ($ref, fragment-less $dynamicRef, allOf[$ref], items->$ref, anyOf[false,$ref]) x every final $dynamicRef form (#n, rJ.json#n, pointer, off-chain x.json#n / y.json#n) x placement (embedded / loader / alternating); ", maxK, fullK) +
		"extra families: a static $ref naming a dynamic anchor and two dynamic names (n, k, plus a decoy z) in scope over chains of 2-3 resources x 4 anchor kinds per resource x 7 final forms; the extensible-tree pattern with the anchor on the resource roots (3x3 anchor kinds, 3 final forms, 3 strict variants; also with a second, default-carrying extension embedded in the root and resolved with ValidateDefaults); a resource nested inside an embedded resource; loaded documents whose $id differs from the retrieval URI, is relative, or is absent; " +
		"two-scope roots reaching one $dynamicRef through two resources in one call under 12 combinators x 54 anchor-kind assignments; each universe is validated on its marker instances and compared with R1's dynamic scope. " +
		"Histories: on ONE Resolved, for every first call a tour of calls in which every ordered pair of 5 instances (up to 3 that R1 accepts, the rest rejected) is adjacent (quick: every 4th universe; every 32nd universe: every sequence of 3 calls, each on its own Resolved), each verdict compared with the verdict of the same call on a fresh Resolved; states = distinct (universe, call-history) prefixes, transitions = Validate calls. Non-trivial = R1 evaluated an applicable keyword")
	r.Assume("R1's dynamic scope = list of schema resources entered; $dynamicRef is dynamic only when its initially resolved target carries $dynamicAnchor of the fragment's name (validated on dynamicRef.json and the rest of the suite at start-up)")
	if n, bad, err := ref.CheckSuite("/repo"); err != nil || len(bad) > 0 {
		fmt.Fprintf(os.Stderr, "HARNESS-ERROR R1 fails the official suite: %v %v\n", err, bad)
		os.Exit(2)
	} else {
		r.Set("oracle_suite_cases_passed", n)
	}
	r.Set("chain_universes", nChain)
	r.Set("two_scope_universes", nTwo)
	r.Set("extra_universes", len(us)-nChain-nTwo)
	var states, transitions, hist atomic.Int64
	par.For(len(us), r.Expired, func(i int, j par.Journal) {
		u := us[i]
		pool := drive.MkPool(gen.Vals(u.Insts...))
		drive.Against(r, j, u.Root, pool, drive.Opt{Draft: ref.D2020, BaseURI: u.Base, Docs: u.Docs, DocsKey: u.DocsKey()})
		if u.Meta["vd"] == 1 || u.Kind == "tree" {
			// what Resolve evaluated for ValidateDefaults must not influence later Validate calls
			drive.Against(r, j, u.Root, pool, drive.Opt{Draft: ref.D2020, BaseURI: u.Base, Docs: u.Docs, DocsKey: u.DocsKey(), Prefix: "ValidateDefaults: ", ValidateDefaults: true})
		}
		if i%4999 == 0 {
			r.Sample(map[string]any{"kind": u.Kind, "root": u.Root, "loader_documents": u.Docs, "instances": u.Insts})
		}
		// histories on one Resolved
		if i%4 != 0 && !thorough {
			return
		}
		depth := 2
		if i%32 == 0 {
			depth = 3
		}
		if len(pool) > 5 {
			// five instances with both verdicts among them where the universe has both
			var valid, invalid []drive.Inst
			if ru, err := ref.NewUniverseD(u.Root, u.Base, u.Docs, nil, ref.D2020); err == nil && ru.Closure() == nil {
				for _, in := range pool {
					if w := ru.Validate(in.Val); w.Err == nil && !w.Loop && !w.Undefined && w.Valid {
						valid = append(valid, in)
					} else {
						invalid = append(invalid, in)
					}
				}
			}
			if len(valid) > 0 && len(invalid) > 0 {
				sel := append([]drive.Inst(nil), valid[:min(3, len(valid))]...)
				sel = append(sel, invalid[max(0, len(invalid)-(5-len(sel))):]...)
				pool = sel
			} else {
				pool = pool[len(pool)-5:]
			}
		}
		s, t := histories(r, j, u, pool, depth)
		states.Add(int64(s))
		transitions.Add(int64(t))
		hist.Add(1)
	})
	r.Set("states", states.Load())
	r.Set("transitions", transitions.Load())
	r.Set("traces_validated_against_impl", transitions.Load())
	r.Set("history_universes", hist.Load())
}

func resolve(u *gen.Universe) (*jsonschema.Resolved, error) {
	ml := &drive.MapLoader{Docs: u.Docs}
	rs, stage, err := drive.Compile(u.Root, &jsonschema.ResolveOptions{BaseURI: u.Base, Loader: ml.Load})
	if stage != "" {
		return nil, err
	}
	return rs, nil
}

// histories explores call histories on one Resolved. depth 3: every sequence of
// 3 calls, each on its own Resolved. depth 2: for every first call k one
// Resolved on which k is followed by a tour that makes every ordered pair of
// instances adjacent (so every 2-call history occurs, from every first call).
func histories(r *ev.Run, j par.Journal, u *gen.Universe, pool []drive.Inst, depth int) (states, transitions int) {
	n := len(pool)
	fresh := make([]bool, n)
	for k, in := range pool {
		rs, err := resolve(u)
		if err != nil {
			return 0, 0 // reported by the verdict pass
		}
		fresh[k], _ = drive.Verdict(rs, in.Plain)
	}
	run := func(seq []int) {
		rs, err := resolve(u)
		if err != nil {
			return
		}
		for pos, k := range seq {
			got, p := drive.Verdict(rs, pool[k].Plain)
			transitions++
			if p != "" || got != fresh[k] {
				var hs []string
				for _, q := range seq[:pos+1] {
					hs = append(hs, pool[q].Text)
				}
				key := "history: " + u.Root + " @" + u.Base + " with " + u.DocsKey() + " calls " + strings.Join(hs, " ; ")
				if r.OnlyKey == "" || r.OnlyKey == key {
					r.Fail(key, map[string]any{"class": "history-dependent verdict", "call": pos, "fresh_valid": fresh[k], "valid_after_history": got, "panic": p})
				}
				break
			}
		}
		r.Eval(len(seq))
	}
	if depth >= 3 {
		var seq []int
		var rec func(d int)
		rec = func(d int) {
			if d == depth {
				run(seq)
				return
			}
			for k := 0; k < n; k++ {
				seq = append(seq, k)
				states++
				rec(d + 1)
				seq = seq[:len(seq)-1]
			}
		}
		rec(0)
		return
	}
	for first := 0; first < n; first++ {
		seq := []int{first}
		for a := 0; a < n; a++ {
			for b := 0; b < n; b++ {
				seq = append(seq, a, b)
			}
		}
		states += len(seq)
		run(seq)
	}
	return
}
