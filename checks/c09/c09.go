// Package c09 decides C09: a JSON document accepted by the inferred schema
// decodes into the type (unknown fields disallowed). Explored: every valid
// encoding and every single-point mutation of it.
package c09

import (
	"encoding/json"
	"errors"
	"math/big"
	"reflect"
	"strings"
	"unicode"

	"github.com/google/jsonschema-go/jsonschema"

	"verif/checks/c04"
	"verif/internal/drive"
	"verif/internal/ev"
	"verif/internal/gen"
	"verif/internal/par"
	"verif/internal/ref"
)

var swapPool = gen.Vals(`null`, `true`, `0`, `-1`, `1.5`, `"s"`, `[]`, `{}`, `[0]`, `{"k":0}`, `""`, `[null]`)

var pushes = func() []*big.Rat {
	var out []*big.Rat
	add := func(s string) {
		b, _ := new(big.Int).SetString(s, 10)
		for _, d := range []int64{-1, 0, 1} {
			x := new(big.Int).Add(b, big.NewInt(d))
			out = append(out, new(big.Rat).SetInt(x))
		}
	}
	for _, s := range []string{"-128", "127", "255", "-32768", "32767", "65535", "-2147483648", "2147483647", "4294967295", "-9223372036854775808", "9223372036854775807", "18446744073709551615"} {
		add(s)
	}
	return out
}()

var (
	minI64 = new(big.Rat).SetInt64(-1 << 63)
	maxU64 = new(big.Rat).SetInt(new(big.Int).SetUint64(^uint64(0)))
	maxI64 = new(big.Rat).SetInt64(1<<63 - 1)
)

// mutations yields every single-point mutation of v (as new trees sharing
// unmodified subtrees).
func mutations(v *ref.Val, yield func(m *ref.Val, what string)) {
	var walk func(cur *ref.Val, rebuild func(*ref.Val) *ref.Val, path string)
	walk = func(cur *ref.Val, rebuild func(*ref.Val) *ref.Val, path string) {
		for _, s := range swapPool {
			if s.Canon() != cur.Canon() {
				yield(rebuild(s), "swap "+path+" -> "+s.JSON())
			}
		}
		switch cur.K {
		case ref.Num:
			if cur.N.IsInt() {
				for _, p := range pushes {
					if p.Cmp(minI64) < 0 || p.Cmp(maxU64) > 0 || p.Cmp(cur.N) == 0 {
						continue
					}
					yield(rebuild(&ref.Val{K: ref.Num, N: p}), "push "+path+" -> "+ref.NumText(p))
				}
			}
		case ref.Arr:
			if len(cur.A) > 0 {
				yield(rebuild(&ref.Val{K: ref.Arr, A: cur.A[:len(cur.A)-1]}), "shorten "+path)
				yield(rebuild(&ref.Val{K: ref.Arr, A: append(append([]*ref.Val(nil), cur.A...), cur.A[0])}), "lengthen "+path)
			}
			yield(rebuild(&ref.Val{K: ref.Arr, A: append(append([]*ref.Val(nil), cur.A...), &ref.Val{K: ref.Null})}), "append null "+path)
			if len(cur.A) == 0 {
				// an empty array has no element to repeat: try one of every JSON type
				for _, s := range swapPool {
					yield(rebuild(&ref.Val{K: ref.Arr, A: []*ref.Val{s}}), "append value "+path)
				}
			}
			for i, e := range cur.A {
				i := i
				walk(e, func(n *ref.Val) *ref.Val {
					a := append([]*ref.Val(nil), cur.A...)
					a[i] = n
					return rebuild(&ref.Val{K: ref.Arr, A: a})
				}, path+"/"+itoa(i))
			}
		case ref.Obj:
			mkObj := func(keys []string, o map[string]*ref.Val) *ref.Val {
				return &ref.Val{K: ref.Obj, Keys: keys, O: o}
			}
			for _, k := range cur.Keys {
				k := k
				// drop
				var ks []string
				o := map[string]*ref.Val{}
				for _, q := range cur.Keys {
					if q != k {
						ks = append(ks, q)
						o[q] = cur.O[q]
					}
				}
				yield(rebuild(mkObj(ks, o)), "drop "+path+"/"+k)
				// case variant of an existing key (in addition to it)
				if cv := caseVariant(k); cv != k {
					if _, dup := cur.O[cv]; !dup {
						o2 := map[string]*ref.Val{cv: cur.O[k]}
						for q, x := range cur.O {
							o2[q] = x
						}
						yield(rebuild(mkObj(sortedKeys(o2), o2)), "add case variant "+path+"/"+cv)
					}
				}
				walk(cur.O[k], func(n *ref.Val) *ref.Val {
					o3 := map[string]*ref.Val{}
					for q, x := range cur.O {
						o3[q] = x
					}
					o3[k] = n
					return rebuild(mkObj(cur.Keys, o3))
				}, path+"/"+k)
			}
			if _, dup := cur.O["zz"]; !dup {
				o2 := map[string]*ref.Val{"zz": {K: ref.Num, N: new(big.Rat)}}
				for q, x := range cur.O {
					o2[q] = x
				}
				yield(rebuild(mkObj(sortedKeys(o2), o2)), "add key "+path+"/zz")
			}
		}
	}
	walk(v, func(n *ref.Val) *ref.Val { return n }, "")
}

func sortedKeys(m map[string]*ref.Val) []string {
	ks := make([]string, 0, len(m))
	for k := range m {
		ks = append(ks, k)
	}
	for i := 1; i < len(ks); i++ {
		for j := i; j > 0 && ks[j] < ks[j-1]; j-- {
			ks[j], ks[j-1] = ks[j-1], ks[j]
		}
	}
	return ks
}

func itoa(i int) string { return string(rune('0' + i%10)) }

func caseVariant(k string) string {
	rs := []rune(k)
	for i, c := range rs {
		if unicode.IsLower(c) {
			rs[i] = unicode.ToUpper(c)
			return string(rs)
		}
		if unicode.IsUpper(c) {
			rs[i] = unicode.ToLower(c)
			return string(rs)
		}
	}
	return k
}

// excused reports decode failures outside C09's domain: an integer that does
// not fit the 64-bit range of the target's signedness.
func excused(err error) bool {
	var ute *json.UnmarshalTypeError
	if !errors.As(err, &ute) || !strings.HasPrefix(ute.Value, "number ") {
		return false
	}
	r, ok := new(big.Rat).SetString(strings.TrimPrefix(ute.Value, "number "))
	if !ok || !r.IsInt() {
		return false
	}
	switch ute.Type.Kind() {
	case reflect.Int, reflect.Int64:
		return r.Cmp(maxI64) > 0
	}
	return false
}

// typeAt follows a mutation path ("/key/0/...") through the Go type; nil if it cannot be followed.
func typeAt(t reflect.Type, path string) reflect.Type {
	if path == "" {
		return t
	}
	for _, seg := range strings.Split(path[1:], "/") {
		for t.Kind() == reflect.Pointer {
			t = t.Elem()
		}
		switch t.Kind() {
		case reflect.Struct:
			var ft reflect.Type
			for _, f := range gen.JSONFields(t) {
				if f.Name == seg {
					ft = f.Type
				}
			}
			if ft == nil {
				return nil
			}
			t = ft
		case reflect.Map, reflect.Slice, reflect.Array:
			t = t.Elem()
		default:
			return nil
		}
	}
	return t
}

func neverNil(t reflect.Type) bool {
	switch t.Kind() {
	case reflect.Bool, reflect.Int, reflect.Int8, reflect.Int16, reflect.Int32, reflect.Int64, reflect.Uint, reflect.Uint8, reflect.Uint16, reflect.Uint32, reflect.Uint64, reflect.Uintptr,
		reflect.Float32, reflect.Float64, reflect.String, reflect.Struct, reflect.Array:
		return true
	}
	return false
}

func hasMarshaler(t reflect.Type, seen map[reflect.Type]bool) bool {
	if gen.IsMarshalerType(t) {
		return true
	}
	if seen[t] {
		return false
	}
	seen[t] = true
	switch t.Kind() {
	case reflect.Pointer, reflect.Slice, reflect.Array, reflect.Map:
		return hasMarshaler(t.Elem(), seen)
	case reflect.Struct:
		for i := 0; i < t.NumField(); i++ {
			if hasMarshaler(t.Field(i).Type, seen) {
				return true
			}
		}
	}
	return false
}

func Run(r *ev.Run) {
	thorough := r.Tier == "thorough"
	ts := c04.Types(thorough)
	limit := 10
	if thorough {
		limit = 16
	}
	r.Rule("for every type of C04's domain without standard-library marshaler types and every enumerated value: the valid encoding and EVERY single-point mutation of it (each node swapped for each of 12 values of other JSON types; each integer pushed to every sized-integer bound and bound+-1 within the 64-bit range; each key dropped; a fresh key, a case variant of each key and the raw text of every json tag that encoding/json does not use as a name added (and substituted); arrays shortened, lengthened, null appended), written as text with integers in plain decimal; if the inferred schema validates the document, json.Decoder with DisallowUnknownFields must decode it into T; and a null swapped into a position whose Go type can never be nil (bool, number, string, struct, array) must be rejected by the schema, as must a document that lacks a field carrying neither omitempty nor omitzero and an array of the wrong length for a Go array. Non-trivial = the document validated (the implication's premise holds); documents are de-duplicated per type")
	r.Assume("encoding/json strict decoding is the oracle", "an integer outside the 64-bit range of a 64-bit target's signedness is outside the domain; floats out of float32 range are not generated")
	r.Set("types", len(ts))
	par.For(len(ts), r.Expired, func(i int, j par.Journal) {
		t := ts[i]
		if !c04.InDomain(t) || hasMarshaler(t.Type, map[reflect.Type]bool{}) {
			return
		}
		key := "ForType(" + t.Desc + ")"
		if r.OnlyKey != "" && !strings.HasPrefix(r.OnlyKey, key) {
			return
		}
		j.Begin(key)
		defer j.End()
		var rs *jsonschema.Resolved
		var err error
		if p := par.Call(func() {
			var s *jsonschema.Schema
			s, err = jsonschema.ForType(t.Type, nil)
			if err == nil {
				rs, err = s.Resolve(nil)
			}
		}); p != "" || err != nil {
			return // C04 reports this
		}
		seen := map[string]bool{}
		docs, accepted := 0, 0
		try := func(m *ref.Val, what string) {
			text := m.JSON()
			if seen[text] {
				return
			}
			seen[text] = true
			dkey := key + " ⊢ " + text
			if r.OnlyKey != "" && r.OnlyKey != dkey {
				return
			}
			var inst any
			if err := json.Unmarshal([]byte(text), &inst); err != nil {
				return
			}
			docs++
			ok, p := drive.Verdict(rs, inst)
			if p != "" {
				r.Fail(dkey, map[string]any{"class": "panic", "panic": p})
				return
			}
			if !ok {
				return
			}
			accepted++
			// "null in a non-nullable position ... rejected": encoding/json itself ignores null
			// everywhere, so this clause needs its own oracle - a position whose Go type can
			// never be nil (bool, number, string, struct, array)
			// likewise for "a missing non-optional field" and "wrong array length": encoding/json
			// fills in zero values / ignores surplus elements, so these clauses get their own oracles
			if strings.HasPrefix(what, "drop ") {
				path := strings.TrimPrefix(what, "drop ")
				if i := strings.LastIndex(path, "/"); i >= 0 {
					if pt := typeAt(t.Type, path[:i]); pt != nil {
						for pt.Kind() == reflect.Pointer {
							pt = pt.Elem()
						}
						if pt.Kind() == reflect.Struct {
							for _, f := range gen.JSONFields(pt) {
								if f.Name == path[i+1:] && !f.OmitEmpty && !f.OmitZero {
									r.Fail(dkey, map[string]any{"class": "document without a non-optional field accepted", "mutation": what, "struct": pt.String(), "field": f.Name})
									return
								}
							}
						}
					}
				}
			}
			if strings.HasPrefix(what, "shorten ") || strings.HasPrefix(what, "lengthen ") || strings.HasPrefix(what, "append null ") || strings.HasPrefix(what, "append value ") {
				path := what[strings.Index(what, " ")+1:]
				if strings.HasPrefix(what, "append null ") {
					path = strings.TrimPrefix(what, "append null ")
				}
				if strings.HasPrefix(what, "append value ") {
					path = strings.TrimPrefix(what, "append value ")
				}
				if pt := typeAt(t.Type, path); pt != nil && pt.Kind() == reflect.Array {
					r.Fail(dkey, map[string]any{"class": "array of the wrong length accepted for a Go array", "mutation": what, "go_type_at_position": pt.String()})
					return
				}
			}
			if strings.HasPrefix(what, "swap ") && strings.HasSuffix(what, " -> null") {
				path := strings.TrimSuffix(strings.TrimPrefix(what, "swap "), " -> null")
				if pt := typeAt(t.Type, path); pt != nil && neverNil(pt) {
					r.Fail(dkey, map[string]any{"class": "null accepted in a non-nullable position", "mutation": what, "go_type_at_position": pt.String()})
					return
				}
			}
			dec := json.NewDecoder(strings.NewReader(text))
			dec.DisallowUnknownFields()
			target := reflect.New(t.Type)
			if derr := dec.Decode(target.Interface()); derr != nil && !excused(derr) {
				r.Fail(dkey, map[string]any{"class": "accepted by the inferred schema but not decodable", "mutation": what, "decode_error": derr.Error()})
			}
		}
		rawNames := map[string]string{} // raw tag name -> the name encoding/json uses
		if st := t.Type; st.Kind() == reflect.Struct {
			used := map[string]bool{}
			for _, f := range gen.JSONFields(st) {
				used[f.Name] = true
			}
			for i := 0; i < st.NumField(); i++ {
				f := st.Field(i)
				if tag, ok := f.Tag.Lookup("json"); ok && f.IsExported() {
					if n, _, _ := strings.Cut(tag, ","); n != "" && n != "-" && !used[n] {
						rawNames[n] = f.Name
					}
				}
			}
		}
		for _, v := range gen.Values(t.Type, limit) {
			if c04.HasNilMap(v) {
				continue
			}
			b, err := c04.Encode(v)
			if err != nil {
				continue
			}
			enc, err := ref.Parse(string(b))
			if err != nil {
				continue
			}
			try(enc, "valid encoding")
			mutations(enc, try)
			// keys spelled like the raw text of a json tag that encoding/json does not use as the
			// name (it falls back to the Go field name): added next to, and in place of, the real key
			if enc.K == ref.Obj {
				for raw, real := range rawNames {
					o := map[string]*ref.Val{raw: {K: ref.Str, S: ""}}
					for q, x := range enc.O {
						o[q] = x
					}
					try(&ref.Val{K: ref.Obj, Keys: sortedKeys(o), O: o}, "add raw tag name /"+raw)
					if cur, ok := enc.O[real]; ok {
						o2 := map[string]*ref.Val{raw: cur}
						for q, x := range enc.O {
							if q != real {
								o2[q] = x
							}
						}
						try(&ref.Val{K: ref.Obj, Keys: sortedKeys(o2), O: o2}, "rename /"+real+" to its raw tag name "+raw)
					}
				}
			}
		}
		r.Eval(docs)
		r.NontrivialN(accepted)
		r.Add("documents_accepted_by_schema", int64(accepted))
		if i%499 == 0 {
			r.Sample(map[string]any{"type": t.Desc, "documents": docs, "accepted": accepted})
		}
	})
}
