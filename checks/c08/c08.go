// Package c08 decides C08: the verdict does not depend on the Go representation
// of the instance.
package c08

import (
	"encoding/json"
	"verif/internal/drive"
	"verif/internal/ev"
	"verif/internal/gen"
	"verif/internal/par"
	"verif/internal/ref"
)

// Schemas exercise every keyword group that looks at the instance.
var Schemas = []string{
	`{"type":"null"}`, `{"type":"boolean"}`, `{"type":"integer"}`, `{"type":"number"}`, `{"type":"string"}`, `{"type":"array"}`, `{"type":"object"}`, `{"type":["integer","null"]}`, `{"type":["number","string"]}`,
	`{"enum":[1,"a",null]}`, `{"enum":[[1],{"a":1}]}`, `{"enum":[1.5,256,true]}`, `{"const":1}`, `{"const":[1,2]}`, `{"const":{"a":1,"b":2}}`, `{"const":null}`, `{"const":"a"}`, `{"const":9223372036854775808}`, `{"const":9007199254740992}`, `{"const":{"a":[1]}}`,
	`{"minimum":1}`, `{"maximum":1}`, `{"exclusiveMinimum":1}`, `{"exclusiveMaximum":256}`, `{"minimum":9007199254740992}`, `{"maximum":9007199254740992}`, `{"maximum":9223372036854775808}`, `{"exclusiveMaximum":9223372036854775808}`, `{"minimum":-9223372036854775808}`, `{"multipleOf":2}`, `{"multipleOf":0.5}`,
	`{"multipleOf":2,"minimum":5}`, `{"multipleOf":2,"maximum":5}`, `{"multipleOf":4,"exclusiveMinimum":2,"exclusiveMaximum":100}`, `{"multipleOf":1,"minimum":1,"maximum":255}`, `{"multipleOf":0.5,"exclusiveMaximum":2}`, `{"items":{"multipleOf":2,"minimum":5}}`,
	`{"minLength":1}`, `{"maxLength":1}`, `{"pattern":"^a"}`, `{"pattern":"^[0-9]+$"}`, `{"maxLength":0}`,
	`{"items":{"type":"integer"}}`, `{"items":{"maximum":1}}`, `{"prefixItems":[{"type":"integer"},{"type":"string"}]}`, `{"prefixItems":[{"const":1}],"items":false}`, `{"contains":{"const":1}}`, `{"contains":{"type":"string"},"minContains":1,"maxContains":1}`, `{"uniqueItems":true}`, `{"minItems":1}`, `{"maxItems":1}`, `{"items":{"items":{"type":"integer"}}}`, `{"unevaluatedItems":false,"prefixItems":[true]}`,
	`{"properties":{"a":{"type":"integer"}}}`, `{"properties":{"a":{"const":1}},"required":["a"]}`, `{"patternProperties":{"^a":{"type":"integer"}}}`, `{"additionalProperties":false,"properties":{"a":true}}`, `{"additionalProperties":{"type":"integer"}}`, `{"propertyNames":{"maxLength":1}}`, `{"required":["a"]}`, `{"required":["a","b"]}`, `{"minProperties":1}`, `{"maxProperties":1}`, `{"dependentRequired":{"a":["b"]}}`, `{"dependentSchemas":{"a":{"required":["b"]}}}`, `{"unevaluatedProperties":false,"properties":{"a":true}}`, `{"properties":{"a":{"properties":{"b":{"type":"integer"}}}}}`, `{"properties":{"a":{"items":{"type":"integer"}}}}`,
	`{"enum":["12","1","1.5"]}`, `{"const":"12"}`, `{"not":{"enum":["1","a"]}}`, `{"items":{"enum":["1"]}}`, `{"properties":{"a":{"enum":["1","1.5"]}}}`, `{"const":{"a":null}}`, `{"enum":[[null],[1,2]]}`,
	`{"$schema":"http://json-schema.org/draft-07/schema#","items":[{"type":"integer"}],"additionalItems":false}`, `{"$schema":"http://json-schema.org/draft-07/schema#","dependencies":{"a":["b"],"b":{"minProperties":2}}}`, `{"$schema":"http://json-schema.org/draft-07/schema#","items":[{"const":1}],"additionalItems":{"type":"string"}}`,
	// member names that read as numbers (a key type such as json.Number must still be a string)
	`{"properties":{"1":{"type":"integer"}},"required":["1"]}`, `{"const":{"1":1}}`, `{"enum":[{"1.0":true},{"12":1,"1":2}]}`, `{"propertyNames":{"type":"string"}}`, `{"propertyNames":{"pattern":"^[0-9]+$"}}`, `{"propertyNames":{"const":"1"}}`, `{"patternProperties":{"^1":{"type":"integer"}},"additionalProperties":false}`, `{"items":{"uniqueItems":true}}`,
	`{"allOf":[{"type":"integer"},{"minimum":1}]}`, `{"anyOf":[{"type":"string"},{"minimum":256}]}`, `{"not":{"type":"integer"}}`, `{"if":{"type":"integer"},"then":{"minimum":1},"else":{"type":"string"}}`, `{"oneOf":[{"type":"integer"},{"minimum":1.5}]}`,
}

// Values: exact in float64 (the canonical decoding must carry the same value).
var Values = []string{
	`null`, `true`, `false`, `0`, `1`, `-1`, `1.5`, `0.5`, `2`, `4`, `6`, `8`, `255`, `256`, `9007199254740992`, `9223372036854775808`, `-9223372036854775808`, `18446744073709551616`,
	`""`, `"a"`, `"ab"`, "\"é\"", `"12"`, `"1"`, `"1.5"`, `12`, `["1"]`, `{"a":"1"}`,
	`[]`, `[1]`, `[1,2]`, `[1,"a"]`, `[1,1]`, `[[1]]`, `[1,1.5]`, `[8,6]`, `[4]`, `["a","a"]`, `[null]`, `[{"a":1}]`, `[256,256]`, `[65536,65536]`, `[9223372036854775808,9223372036854775808]`, `[-9223372036854775808,-9223372036854775808]`, `[1.5,1.5]`, `[0,0]`, `[{"a":1},{"a":1}]`, `[[256],[256]]`, `[[1,2],[1,3]]`, `[[1,2],[1,2]]`, `[null,null]`, `[null,1]`,
	`{"1":1}`, `[{"1":1},{"1":1}]`, `[{"1":true},{"1.0":true}]`, `{"12":1,"1":2}`, `{"1.0":true}`, `[[{"1":1},{"1":1}]]`,
	`{}`, `{"a":1}`, `{"a":1,"b":2}`, `{"a":"x"}`, `{"a":[1]}`, `{"a":{"b":1}}`, `{"ab":1}`, `{"b":1}`, `{"a":null}`, `{"a":1.5}`,
}

type repd struct {
	gen.Rep
	canon string
}

// BigValues are integers that float64 cannot carry exactly: the canonical
// decoding is lossy, so the oracle for their exact representations (int64,
// uint64, json.Number) is R1 on the exact value.
var BigValues = []string{`9007199254740993`, `-9007199254740993`, `9223372036854775807`, `18446744073709551615`, `9007199254740995`,
	`[9007199254740993]`, `{"a":9223372036854775807}`, `[9007199254740993,9007199254740992]`}

var BigSchemas = []string{
	`{"minimum":9007199254740992}`, `{"exclusiveMinimum":9007199254740992}`, `{"maximum":9007199254740992}`, `{"exclusiveMaximum":9007199254740994}`, `{"maximum":9007199254740994}`,
	`{"exclusiveMaximum":9223372036854775808}`, `{"maximum":9223372036854775808}`, `{"minimum":9223372036854775808}`, `{"exclusiveMinimum":-9007199254740992}`, `{"maximum":18446744073709551616}`, `{"exclusiveMaximum":18446744073709551616}`,
	`{"type":"integer"}`, `{"const":9007199254740992}`, `{"enum":[9007199254740992,9223372036854775808]}`, `{"items":{"exclusiveMinimum":9007199254740992}}`, `{"properties":{"a":{"exclusiveMaximum":9223372036854775808}}}`,
	`{"uniqueItems":true}`, `{"items":{"maximum":9007199254740992}}`, `{"not":{"minimum":9007199254740994}}`,
}

func Run(r *ev.Run) {
	thorough := r.Tier == "thorough"
	dev := 1
	if thorough {
		dev = 2
	}
	r.Rule("every schema of a 67-schema set covering each instance-inspecting keyword group x every value of a 40-value pool x every Go representation of G-rep (numeric kind per leaf, container typing per node, pointer/interface wrapping, named types, json.Number spellings; full product for values with <=3 nodes, otherwise <=1 (thorough 2) deviating nodes plus uniform stylings) is validated; the verdict must equal the verdict for the canonical encoding/json decoding of the same document. plus 17 hand-built instances whose equal parts are carried by different Go types at three or more nodes (byte slices next to []any / []int / Go arrays, typed next to untyped maps) x 9 schemas that compare parts of the instance. Non-trivial = representation differs from the canonical decoding")
	r.Assume("nil slices, nil maps and structs are outside the domain; float32 and json.Number representations are generated only when they carry the value exactly",
		"the canonical verdict itself is C01's business; R1 disagreements with it are counted, not reported here")
	vals := gen.Vals(Values...)
	reps := make([][]repd, len(vals))
	total := 0
	for i, v := range vals {
		for _, rp := range gen.Reps(v, 3, dev, gen.RepOpts{}) {
			c, ok := ref.CanonGo(rp.V)
			if !ok || c != v.Canon() {
				continue // not an exact carrier of the value (e.g. inexact float32)
			}
			reps[i] = append(reps[i], repd{rp, c})
		}
		total += len(reps[i])
	}
	r.Set("schemas", len(Schemas))
	r.Set("values", len(vals))
	r.Set("representations", total)
	par.For(len(Schemas)*len(vals), r.Expired, func(idx int, j par.Journal) {
		s, vi := Schemas[idx/len(vals)], idx%len(vals)
		v := vals[vi]
		rs, stage, err := drive.Compile(s, nil)
		if stage != "" {
			r.Fail(s, map[string]any{"class": stage, "error": err.Error()})
			return
		}
		canonV, p := drive.Verdict(rs, v.Plain())
		if p != "" {
			r.Fail(s+" ⊢ "+v.JSON(), map[string]any{"class": "panic on canonical decoding", "panic": p})
			return
		}
		if u, err := ref.NewUniverse(s, "", nil, nil); err == nil && u.Closure() == nil {
			if w := u.Validate(v); !w.Undefined && w.Valid != canonV {
				r.Add("r1_disagrees_with_canonical_verdict", 1)
			}
		}
		for _, rp := range reps[vi] {
			key := s + " ⊢ " + rp.Desc
			if r.OnlyKey != "" && r.OnlyKey != key {
				continue
			}
			j.Begin(key)
			got, p := drive.Verdict(rs, rp.V)
			j.End()
			if rp.Dev > 0 {
				r.NontrivialN(1)
			}
			if p != "" {
				r.Fail(key, map[string]any{"class": "panic", "panic": p, "json": v.JSON(), "canonical_valid": canonV})
			} else if got != canonV {
				r.Fail(key, map[string]any{"class": "representation-dependent verdict", "json": v.JSON(), "canonical_valid": canonV, "valid": got})
			}
		}
		r.Eval(len(reps[vi]))
		if idx%173 == 0 && len(reps[vi]) > 1 {
			r.Sample(map[string]any{"schema": s, "json": v.JSON(), "representation": reps[vi][len(reps[vi])/2].Desc, "canonical_valid": canonV})
		}
	})
	runBig(r)
}

func runBig(r *ev.Run) {
	vals := gen.Vals(BigValues...)
	n := 0
	for _, sc := range BigSchemas {
		u, err := ref.NewUniverse(sc, "", nil, nil)
		if err != nil || u.Closure() != nil {
			continue
		}
		rs, stage, cerr := drive.Compile(sc, nil)
		if stage != "" {
			r.Fail(sc, map[string]any{"class": stage, "error": cerr.Error()})
			continue
		}
		for _, v := range vals {
			want := u.Validate(v)
			if want.Undefined || want.Err != nil {
				continue
			}
			for _, rp := range gen.Reps(v, 3, 2, gen.RepOpts{}) {
				if c, ok := ref.CanonGo(rp.V); !ok || c != v.Canon() {
					continue // not an exact carrier (float64 rounds these values)
				}
				key := sc + " ⊢ " + rp.Desc + " (exact integer beyond 2^53)"
				if r.OnlyKey != "" && r.OnlyKey != key {
					continue
				}
				got, p := drive.Verdict(rs, rp.V)
				n++
				if p != "" {
					r.Fail(key, map[string]any{"class": "panic", "panic": p})
				} else if got != want.Valid {
					r.Fail(key, map[string]any{"class": "exact representation judged by a rounded value", "json": v.JSON(), "spec_valid": want.Valid, "valid": got})
				}
			}
		}
	}
	r.Eval(n)
	r.NontrivialN(n)
	r.Set("exact_big_integer_cases", n)
	mixedCarriers(r)
}

// mixedCarriers: one instance whose EQUAL parts are carried by different Go types (three or more
// deviating nodes, which the <=1/<=2-deviation product does not reach): byte slices next to []any /
// []int / Go arrays of the same numbers, typed next to untyped maps. Every schema that compares
// parts of one instance with each other or with schema values must judge them by JSON value.
func mixedCarriers(r *ev.Run) {
	schemas := []string{`{"uniqueItems":true}`, `{"items":{"uniqueItems":true}}`, `{"properties":{"a":{"uniqueItems":true}}}`, `{"enum":[[[1,2],[1,2]],[[1,2],[1,3]],[{"a":[1]},{"a":[1]}]]}`, `{"items":{"const":[1,2]}}`, `{"contains":{"const":[1,2]},"minContains":2}`,
		`{"items":{"enum":[[1,3],{"a":[1]}]}}`, `{"not":{"uniqueItems":true}}`, `{"unevaluatedItems":false,"prefixItems":[{"const":[1,2]}],"contains":{"maxItems":2}}`}
	type MyBytes []byte
	type mc struct {
		x    any
		text string
	}
	insts := []mc{
		{[]any{[]uint8{1, 2}, []any{1.0, 2.0}}, `[[1,2],[1,2]]`}, {[]any{[]any{1.0, 2.0}, []byte{1, 2}}, `[[1,2],[1,2]]`}, {[]any{[]byte{1, 2}, []int{1, 2}}, `[[1,2],[1,2]]`}, {[]any{[2]uint8{1, 2}, []uint8{1, 2}}, `[[1,2],[1,2]]`},
		{[]any{MyBytes{1, 2}, []any{json.Number("1"), json.Number("2.0")}}, `[[1,2],[1,2]]`}, {[][]uint8{{1, 2}, {1, 2}}, `[[1,2],[1,2]]`}, {[]any{[]uint8{1, 2}, []any{1.0, 3.0}}, `[[1,2],[1,3]]`}, {[]any{[]uint8{1, 3}, []uint8{1, 2}}, `[[1,3],[1,2]]`},
		{[]any{[]uint8{}, []any{}}, `[[],[]]`}, {[]any{[]uint8{1}, []any{1.0}, []int8{1}}, `[[1],[1],[1]]`}, {[]any{map[string]any{"a": []uint8{1}}, map[string]any{"a": []any{1.0}}}, `[{"a":[1]},{"a":[1]}]`},
		{[]any{map[string][]uint8{"a": {1}}, map[gen.MyKey]any{"a": [1]int{1}}}, `[{"a":[1]},{"a":[1]}]`}, {map[string]any{"a": []any{[]uint8{1, 2}, []int16{1, 2}}}, `{"a":[[1,2],[1,2]]}`}, {[]any{[]any{[]uint8{1, 2}, []any{1.0, 2.0}}}, `[[[1,2],[1,2]]]`},
		{[]any{[]uint16{1, 2}, []float32{1, 2}, []uint8{1, 2}}, `[[1,2],[1,2],[1,2]]`}, {[]any{[]uint8{255, 0}, []any{255.0, 0.0}}, `[[255,0],[255,0]]`}, {[]any{&[]uint8{1, 2}, []any{1.0, 2.0}}, `[[1,2],[1,2]]`},
	}
	r.Set("mixed_carrier_instances", len(insts))
	n := 0
	for _, st := range schemas {
		rs, stage, err := drive.Compile(st, nil)
		if stage != "" {
			r.Fail(st, map[string]any{"class": stage, "error": err.Error()})
			continue
		}
		for _, in := range insts {
			x, v := in.x, ref.MustParse(in.text)
			if c, ok := ref.CanonGo(x); !ok || c != v.Canon() {
				r.Fail(gen.Describe(x), map[string]any{"class": "harness", "error": "the Go value does not carry " + in.text})
				continue
			}
			key := st + " ⊢ " + gen.Describe(x)
			if r.OnlyKey != "" && r.OnlyKey != key {
				continue
			}
			want, p0 := drive.Verdict(rs, v.Plain())
			got, p := drive.Verdict(rs, x)
			n++
			if p != "" || p0 != "" {
				r.Fail(key, map[string]any{"class": "panic", "panic": p + p0})
			} else if got != want {
				r.Fail(key, map[string]any{"class": "representation-dependent verdict", "json": v.JSON(), "canonical_valid": want, "valid": got})
			}
		}
	}
	r.Eval(n)
	r.NontrivialN(n)
}
