// instr rewrites the package under test (from /repo's current tree) so that the
// explorer owns its nondeterminism: Go map iteration, reflect map iteration and
// maphash seeds (mode env), plus a scheduling point before every statement that
// can touch shared memory and cooperative shims for sync / sync/atomic (mode sched).
//
// It writes the rewritten files and an overlay.json for `go build -overlay`;
// /repo itself is never modified.
package main

import (
	"bytes"
	"encoding/json"
	"flag"
	"fmt"
	"go/ast"
	"go/importer"
	"go/parser"
	"go/printer"
	"go/token"
	"go/types"
	"os"
	"path/filepath"
	"sort"
	"strings"
)

type report struct {
	Mode         string         `json:"mode"`
	Files        []string       `json:"files"`
	MapRanges    []string       `json:"map_range_sites_owned"`
	ReflectIters []string       `json:"reflect_map_iteration_sites_owned"`
	Maphash      []string       `json:"maphash_sites_owned"`
	Points       int            `json:"scheduling_points"`
	SyncShims    []string       `json:"sync_shims"`
	LazyGlobals  []string       `json:"lazy_globals_reset"`
	Unowned      []string       `json:"unowned"`
	PtrMapRanges []string       `json:"unowned_pointer_map_ranges"`
	HashAccessor bool           `json:"hash_accessor"`
	Counts       map[string]int `json:"counts"`
}

var (
	fset  = token.NewFileSet()
	rep   report
	sites []string
)

func site(kind string, pos token.Pos) int {
	p := fset.Position(pos)
	sites = append(sites, fmt.Sprintf("%s:%d:%s", filepath.Base(p.Filename), p.Line, kind))
	return len(sites) - 1
}

func main() {
	src := flag.String("src", "/repo/jsonschema", "package directory")
	out := flag.String("out", "", "output directory")
	mode := flag.String("mode", "env", "env | sched")
	flag.Parse()
	if *out == "" {
		fmt.Fprintln(os.Stderr, "instr: -out required")
		os.Exit(2)
	}
	rep.Mode = *mode
	rep.Counts = map[string]int{}
	os.MkdirAll(*out, 0o755)
	pkgs, err := parser.ParseDir(fset, *src, func(fi os.FileInfo) bool { return !strings.HasSuffix(fi.Name(), "_test.go") }, parser.ParseComments)
	if err != nil {
		fmt.Fprintln(os.Stderr, "instr: parse:", err)
		os.Exit(1)
	}
	pkg := pkgs["jsonschema"]
	if pkg == nil {
		fmt.Fprintln(os.Stderr, "instr: package jsonschema not found")
		os.Exit(1)
	}
	var names []string
	for n := range pkg.Files {
		names = append(names, n)
	}
	sort.Strings(names)
	var files []*ast.File
	for _, n := range names {
		files = append(files, pkg.Files[n])
	}
	info := &types.Info{Types: map[ast.Expr]types.TypeAndValue{}, Uses: map[*ast.Ident]types.Object{}, Defs: map[*ast.Ident]types.Object{}, Selections: map[*ast.SelectorExpr]*types.Selection{}}
	conf := types.Config{Importer: importer.ForCompiler(fset, "source", nil), Error: func(error) {}}
	tpkg, _ := conf.Check("github.com/google/jsonschema-go/jsonschema", fset, files, info)

	overlay := map[string]string{}
	hashOK := false
	if tpkg != nil {
		if o := tpkg.Scope().Lookup("hashValue"); o != nil {
			if sig, ok := o.Type().(*types.Signature); ok && sig.Params().Len() == 2 && sig.Results().Len() == 0 &&
				strings.HasSuffix(sig.Params().At(0).Type().String(), "maphash.Hash") && sig.Params().At(1).Type().String() == "reflect.Value" {
				hashOK = true
			}
		}
	}
	rep.HashAccessor = hashOK

	// every execution of the explorer starts from cold caches (also in env mode:
	// otherwise the first execution would pass choice points that later ones skip)
	lazy := findLazyGlobals(files, info)
	for i, f := range files {
		rw := &rewriter{info: info, file: f, sched: *mode == "sched"}
		rw.run()
		var buf bytes.Buffer
		if err := printer.Fprint(&buf, fset, f); err != nil {
			fmt.Fprintln(os.Stderr, "instr: print:", err)
			os.Exit(1)
		}
		for _, keep := range rw.keepImports {
			fmt.Fprintf(&buf, "\nvar _ = %s\n", keep)
		}
		fmt.Fprintf(&buf, "\nfunc verifResetIn_%d() {\n", i)
		for _, lv := range lazy {
			if lv.file != f {
				continue
			}
			if len(lv.spec.Values) == len(lv.spec.Names) {
				var eb bytes.Buffer
				printer.Fprint(&eb, fset, lv.spec.Values[lv.idx])
				fmt.Fprintf(&buf, "\t%s = %s\n", lv.name, eb.String())
			} else {
				fmt.Fprintf(&buf, "\tverifZero(&%s)\n", lv.name)
			}
		}
		fmt.Fprintf(&buf, "}\n")
		dst := filepath.Join(*out, filepath.Base(names[i]))
		text := "//go:build verif\n\n" + stripBuildTags(buf.String())
		os.WriteFile(dst, []byte(text), 0o644)
		overlay[names[i]] = dst
		rep.Files = append(rep.Files, filepath.Base(names[i]))
	}
	rt := runtimeFile(hashOK, *mode == "sched", len(files))
	rtPath := filepath.Join(*out, "zz_verif_rt.go")
	os.WriteFile(rtPath, []byte(rt), 0o644)
	overlay[filepath.Join(*src, "zz_verif_rt.go")] = rtPath
	ob, _ := json.MarshalIndent(map[string]any{"Replace": overlay}, "", " ")
	os.WriteFile(filepath.Join(*out, "overlay.json"), ob, 0o644)
	rep.Counts["map_ranges"] = len(rep.MapRanges)
	rep.Counts["reflect_iters"] = len(rep.ReflectIters)
	rep.Counts["maphash"] = len(rep.Maphash)
	rep.Counts["sites"] = len(sites)
	rb, _ := json.MarshalIndent(rep, "", " ")
	os.WriteFile(filepath.Join(*out, "report.json"), rb, 0o644)
}

func stripBuildTags(s string) string {
	var out []string
	for _, l := range strings.Split(s, "\n") {
		if strings.HasPrefix(l, "//go:build") || strings.HasPrefix(l, "// +build") {
			continue
		}
		out = append(out, l)
	}
	return strings.Join(out, "\n")
}

type rewriter struct {
	info        *types.Info
	file        *ast.File
	sched       bool
	keepImports []string
	pkgNames    map[string]string // import path -> local name
	noPoint     int
}

func (rw *rewriter) unownedMapRange(x *ast.RangeStmt) bool {
	tv, ok := rw.info.Types[x.X]
	if !ok {
		return false
	}
	mt, ok := tv.Type.Underlying().(*types.Map)
	return ok && x.Key != nil && !rw.ownableKey(mt.Key())
}

func (rw *rewriter) run() {
	rw.pkgNames = map[string]string{}
	for _, im := range rw.file.Imports {
		path := strings.Trim(im.Path.Value, `"`)
		name := filepath.Base(path)
		if im.Name != nil {
			name = im.Name.Name
		}
		rw.pkgNames[path] = name
	}
	if n, ok := rw.pkgNames["hash/maphash"]; ok {
		rw.keepImports = append(rw.keepImports, n+".MakeSeed")
	}
	if rw.sched {
		if n, ok := rw.pkgNames["sync"]; ok {
			rw.keepImports = append(rw.keepImports, n+".NewCond")
		}
		if n, ok := rw.pkgNames["sync/atomic"]; ok {
			rw.keepImports = append(rw.keepImports, n+".AddInt64")
		}
	}
	// 1. expression-level rewrites (selectors, reflect calls)
	ast.Inspect(rw.file, func(n ast.Node) bool {
		switch x := n.(type) {
		case *ast.CallExpr:
			rw.reflectCall(x)
		}
		return true
	})
	rw.selectors()
	// 2. statement-level rewrites
	for _, d := range rw.file.Decls {
		fd, ok := d.(*ast.FuncDecl)
		if !ok || fd.Body == nil {
			continue
		}
		rw.block(fd.Body, fd.Name.Name == "init" && fd.Recv == nil)
	}
	// function literals in package-level var initialisers
	for _, d := range rw.file.Decls {
		if gd, ok := d.(*ast.GenDecl); ok {
			ast.Inspect(gd, func(n ast.Node) bool {
				if fl, ok := n.(*ast.FuncLit); ok {
					rw.block(fl.Body, false)
					return false
				}
				return true
			})
		}
	}
}

func (rw *rewriter) isPkg(id *ast.Ident, path string) bool {
	if o, ok := rw.info.Uses[id].(*types.PkgName); ok {
		return o.Imported().Path() == path
	}
	n, ok := rw.pkgNames[path]
	return ok && id.Name == n && id.Obj == nil
}

var (
	maphashMap = map[string]string{"Hash": "verifHash", "MakeSeed": "verifMakeSeed", "Seed": "verifSeed"}
	syncMap    = map[string]string{"Map": "verifSyncMap", "Mutex": "verifMutex", "RWMutex": "verifRWMutex", "Once": "verifOnce", "WaitGroup": "verifWaitGroup", "Pool": "verifPool"}
	atomicMap  = map[string]string{"Int32": "verifAtomicInt32", "Int64": "verifAtomicInt64", "Uint32": "verifAtomicUint32", "Uint64": "verifAtomicUint64", "Bool": "verifAtomicBool", "Value": "verifAtomicValue", "Pointer": "verifAtomicPointer",
		"AddInt32": "verifAddInt32", "AddInt64": "verifAddInt64", "LoadInt32": "verifLoadInt32", "LoadInt64": "verifLoadInt64", "StoreInt32": "verifStoreInt32", "StoreInt64": "verifStoreInt64",
		"CompareAndSwapInt32": "verifCASInt32", "CompareAndSwapInt64": "verifCASInt64", "AddUint64": "verifAddUint64", "LoadUint64": "verifLoadUint64", "StoreUint64": "verifStoreUint64",
		"AddUint32": "verifAddUint32", "LoadUint32": "verifLoadUint32", "StoreUint32": "verifStoreUint32", "CompareAndSwapUint32": "verifCASUint32", "CompareAndSwapUint64": "verifCASUint64"}
)

// selectors replaces pkg.Name selector expressions by in-package shim identifiers.
func (rw *rewriter) selectors() {
	replace := func(e *ast.Expr) {
		sel, ok := (*e).(*ast.SelectorExpr)
		if !ok {
			return
		}
		id, ok := sel.X.(*ast.Ident)
		if !ok {
			return
		}
		var m map[string]string
		var pkg string
		switch {
		case rw.isPkg(id, "hash/maphash"):
			m, pkg = maphashMap, "maphash"
		case rw.sched && rw.isPkg(id, "sync"):
			m, pkg = syncMap, "sync"
		case rw.sched && rw.isPkg(id, "sync/atomic"):
			m, pkg = atomicMap, "atomic"
		default:
			return
		}
		if to, ok := m[sel.Sel.Name]; ok {
			*e = &ast.Ident{Name: to, NamePos: sel.Pos()}
			p := fset.Position(sel.Pos())
			s := fmt.Sprintf("%s:%d:%s.%s", filepath.Base(p.Filename), p.Line, pkg, sel.Sel.Name)
			if pkg == "maphash" {
				rep.Maphash = append(rep.Maphash, s)
			} else {
				rep.SyncShims = append(rep.SyncShims, s)
			}
		} else {
			p := fset.Position(sel.Pos())
			rep.Unowned = append(rep.Unowned, fmt.Sprintf("%s:%d:%s.%s", filepath.Base(p.Filename), p.Line, pkg, sel.Sel.Name))
		}
	}
	// visit every expression slot
	ast.Inspect(rw.file, func(n ast.Node) bool {
		switch x := n.(type) {
		case *ast.Field:
			replace(&x.Type)
		case *ast.ValueSpec:
			if x.Type != nil {
				replace(&x.Type)
			}
			for i := range x.Values {
				replace(&x.Values[i])
			}
		case *ast.TypeSpec:
			replace(&x.Type)
		case *ast.CallExpr:
			replace(&x.Fun)
			for i := range x.Args {
				replace(&x.Args[i])
			}
		case *ast.StarExpr:
			replace(&x.X)
		case *ast.UnaryExpr:
			replace(&x.X)
		case *ast.CompositeLit:
			if x.Type != nil {
				replace(&x.Type)
			}
			for i := range x.Elts {
				replace(&x.Elts[i])
			}
		case *ast.ArrayType:
			replace(&x.Elt)
		case *ast.MapType:
			replace(&x.Key)
			replace(&x.Value)
		case *ast.AssignStmt:
			for i := range x.Rhs {
				replace(&x.Rhs[i])
			}
		case *ast.KeyValueExpr:
			replace(&x.Value)
		case *ast.IndexExpr: // generic instantiation atomic.Pointer[T]
			replace(&x.X)
			replace(&x.Index)
		case *ast.TypeAssertExpr:
			if x.Type != nil {
				replace(&x.Type)
			}
		case *ast.ReturnStmt:
			for i := range x.Results {
				replace(&x.Results[i])
			}
		case *ast.SelectorExpr:
			replace(&x.X)
		}
		return true
	})
}

// reflectCall rewrites v.MapRange(), v.MapKeys(), v.Seq2(), v.Seq() on reflect.Value.
func (rw *rewriter) reflectCall(c *ast.CallExpr) {
	sel, ok := c.Fun.(*ast.SelectorExpr)
	if !ok || len(c.Args) != 0 {
		return
	}
	var fn string
	switch sel.Sel.Name {
	case "MapRange":
		fn = "verifMapRange"
	case "MapKeys":
		fn = "verifMapKeys"
	case "Seq2":
		fn = "verifSeq2"
	default:
		return
	}
	tv, ok := rw.info.Types[sel.X]
	if ok && tv.Type.String() != "reflect.Value" {
		return
	}
	s := site("reflect."+sel.Sel.Name, c.Pos())
	rep.ReflectIters = append(rep.ReflectIters, sites[s])
	c.Fun = &ast.Ident{Name: fn}
	c.Args = []ast.Expr{&ast.BasicLit{Kind: token.INT, Value: fmt.Sprint(s)}, sel.X}
}

func (rw *rewriter) ownableKey(t types.Type) bool {
	switch u := t.Underlying().(type) {
	case *types.Basic:
		return u.Info()&types.IsString != 0 || u.Info()&types.IsInteger != 0
	}
	s := t.String()
	return s == "*regexp.Regexp" || s == "reflect.Type"
}

// block rewrites the statements of a block (recursively).
func (rw *rewriter) block(b *ast.BlockStmt, isInit bool) {
	if b == nil {
		return
	}
	b.List = rw.stmts(b.List, isInit)
}

func (rw *rewriter) stmts(list []ast.Stmt, isInit bool) []ast.Stmt {
	var out []ast.Stmt
	for _, s := range list {
		rw.stmt(s, isInit)
		if rw.sched && !isInit && rw.noPoint == 0 && rw.needsPoint(s) {
			id := site("stmt", s.Pos())
			rep.Points++
			out = append(out, &ast.ExprStmt{X: &ast.CallExpr{Fun: &ast.Ident{Name: "verifPoint"}, Args: []ast.Expr{&ast.BasicLit{Kind: token.INT, Value: fmt.Sprint(id)}}}})
		}
		out = append(out, s)
	}
	return out
}

func (rw *rewriter) stmt(s ast.Stmt, isInit bool) {
	switch x := s.(type) {
	case *ast.BlockStmt:
		rw.block(x, isInit)
	case *ast.IfStmt:
		rw.block(x.Body, isInit)
		if x.Else != nil {
			rw.stmt(x.Else, isInit)
		}
		rw.funcLits(x.Init, x.Cond)
	case *ast.ForStmt:
		rw.block(x.Body, isInit)
		rw.funcLits(x.Init, x.Cond, x.Post)
	case *ast.RangeStmt:
		if rw.unownedMapRange(x) {
			// native (random) order: the body must not contain choice points, or
			// a replay could see them in a different order
			rw.noPoint++
			rw.block(x.Body, isInit)
			rw.noPoint--
		} else {
			rw.block(x.Body, isInit)
		}
		rw.rangeStmt(x)
		rw.funcLits(x.X)
	case *ast.SwitchStmt:
		for _, c := range x.Body.List {
			cc := c.(*ast.CaseClause)
			cc.Body = rw.stmts(cc.Body, isInit)
		}
		rw.funcLits(x.Init, x.Tag)
	case *ast.TypeSwitchStmt:
		for _, c := range x.Body.List {
			cc := c.(*ast.CaseClause)
			cc.Body = rw.stmts(cc.Body, isInit)
		}
	case *ast.SelectStmt:
		for _, c := range x.Body.List {
			cc := c.(*ast.CommClause)
			cc.Body = rw.stmts(cc.Body, isInit)
		}
		p := fset.Position(x.Pos())
		rep.Unowned = append(rep.Unowned, fmt.Sprintf("%s:%d:select", filepath.Base(p.Filename), p.Line))
	case *ast.LabeledStmt:
		rw.stmt(x.Stmt, isInit)
	case *ast.GoStmt:
		if rw.sched {
			// go f(x) -> verifSpawn(func() { f(x) })
			p := fset.Position(x.Pos())
			rep.SyncShims = append(rep.SyncShims, fmt.Sprintf("%s:%d:go", filepath.Base(p.Filename), p.Line))
		}
		rw.funcLits(x.Call)
	default:
		rw.funcLits(s)
	}
}

// funcLits descends into function literals nested in expressions/statements.
func (rw *rewriter) funcLits(nodes ...ast.Node) {
	for _, n := range nodes {
		if n == nil || (fmt.Sprintf("%v", n) == "<nil>") {
			continue
		}
		ast.Inspect(n, func(m ast.Node) bool {
			if fl, ok := m.(*ast.FuncLit); ok {
				rw.block(fl.Body, false)
				return false
			}
			return true
		})
	}
}

func (rw *rewriter) rangeStmt(x *ast.RangeStmt) {
	tv, ok := rw.info.Types[x.X]
	if !ok {
		return
	}
	mt, ok := tv.Type.Underlying().(*types.Map)
	if !ok {
		return
	}
	if x.Key == nil {
		return // `for range m`: order unobservable
	}
	if !rw.ownableKey(mt.Key()) {
		p := fset.Position(x.Pos())
		rep.PtrMapRanges = append(rep.PtrMapRanges, fmt.Sprintf("%s:%d:range over %s", filepath.Base(p.Filename), p.Line, tv.Type))
		return
	}
	id := site("range "+tv.Type.String(), x.Pos())
	rep.MapRanges = append(rep.MapRanges, sites[id])
	ev := &ast.Ident{Name: fmt.Sprintf("verifE%d", id)}
	var lhs, rhs []ast.Expr
	blank := func(e ast.Expr) bool {
		i, ok := e.(*ast.Ident)
		return e == nil || (ok && i.Name == "_")
	}
	if !blank(x.Key) {
		lhs = append(lhs, x.Key)
		rhs = append(rhs, &ast.SelectorExpr{X: ev, Sel: &ast.Ident{Name: "K"}})
	}
	if !blank(x.Value) {
		lhs = append(lhs, x.Value)
		rhs = append(rhs, &ast.SelectorExpr{X: ev, Sel: &ast.Ident{Name: "V"}})
	}
	tok := x.Tok
	x.X = &ast.CallExpr{Fun: &ast.Ident{Name: "verifEntries"}, Args: []ast.Expr{&ast.BasicLit{Kind: token.INT, Value: fmt.Sprint(id)}, x.X}}
	x.Key = &ast.Ident{Name: "_"}
	x.Value = ev
	x.Tok = token.DEFINE
	if len(lhs) > 0 {
		x.Body.List = append([]ast.Stmt{&ast.AssignStmt{Lhs: lhs, Tok: tok, Rhs: rhs}}, x.Body.List...)
	} else {
		x.Body.List = append([]ast.Stmt{&ast.AssignStmt{Lhs: []ast.Expr{&ast.Ident{Name: "_"}}, Tok: token.ASSIGN, Rhs: []ast.Expr{ev}}}, x.Body.List...)
	}
}

// needsPoint: a scheduling point goes before every statement that can touch
// memory other goroutines may see. Statements over local variables only are skipped.
func (rw *rewriter) needsPoint(s ast.Stmt) bool {
	switch x := s.(type) {
	case *ast.DeclStmt, *ast.EmptyStmt, *ast.BranchStmt:
		return false
	case *ast.LabeledStmt:
		return false // the point would separate the label from its statement's meaning for goto; inner statements get points
	case *ast.ExprStmt:
		if c, ok := x.X.(*ast.CallExpr); ok {
			if id, ok := c.Fun.(*ast.Ident); ok && id.Name == "verifPoint" {
				return false
			}
		}
		return true
	case *ast.AssignStmt:
		return !rw.pureLocal(x)
	case *ast.IncDecStmt:
		return !rw.pureLocal(x)
	case *ast.ReturnStmt:
		return !rw.pureLocal(x)
	}
	return true
}

func (rw *rewriter) pureLocal(n ast.Node) bool {
	pure := true
	ast.Inspect(n, func(m ast.Node) bool {
		if !pure {
			return false
		}
		switch x := m.(type) {
		case *ast.CallExpr:
			// conversions and len/cap of locals are pure; anything else is not
			if id, ok := x.Fun.(*ast.Ident); ok {
				switch id.Name {
				case "len", "cap", "min", "max", "int", "int64", "float64", "string", "uint64":
					return true
				}
			}
			pure = false
		case *ast.IndexExpr, *ast.StarExpr, *ast.SliceExpr, *ast.FuncLit, *ast.CompositeLit, *ast.TypeAssertExpr:
			pure = false
		case *ast.UnaryExpr:
			if x.Op == token.AND || x.Op == token.ARROW {
				pure = false
			}
		case *ast.SelectorExpr:
			pure = false
		case *ast.Ident:
			if o := rw.info.Uses[x]; o != nil {
				if v, ok := o.(*types.Var); ok && v.Pkg() != nil && v.Parent() == v.Pkg().Scope() {
					pure = false // package-level variable
				}
			}
		}
		return pure
	})
	return pure
}

// ---------------------------------------------------------------------------
// lazily written package-level variables

type lazyVar struct {
	name string
	spec *ast.ValueSpec
	idx  int
	file *ast.File
}

func findLazyGlobals(files []*ast.File, info *types.Info) []lazyVar {
	type gv struct {
		spec *ast.ValueSpec
		idx  int
		obj  types.Object
		file *ast.File
	}
	globals := map[types.Object]gv{}
	for _, f := range files {
		for _, d := range f.Decls {
			gd, ok := d.(*ast.GenDecl)
			if !ok || gd.Tok != token.VAR {
				continue
			}
			for _, sp := range gd.Specs {
				vs := sp.(*ast.ValueSpec)
				for i, n := range vs.Names {
					if o := info.Defs[n]; o != nil {
						globals[o] = gv{vs, i, o, f}
					}
				}
			}
		}
	}
	written := map[types.Object]bool{}
	mark := func(e ast.Expr) {
		for {
			switch x := e.(type) {
			case *ast.IndexExpr:
				e = x.X
				continue
			case *ast.SelectorExpr:
				e = x.X
				continue
			case *ast.StarExpr:
				e = x.X
				continue
			case *ast.ParenExpr:
				e = x.X
				continue
			case *ast.Ident:
				if o := info.Uses[x]; o != nil {
					if _, ok := globals[o]; ok {
						written[o] = true
					}
				}
			}
			return
		}
	}
	for _, f := range files {
		for _, d := range f.Decls {
			fd, ok := d.(*ast.FuncDecl)
			if !ok || fd.Body == nil || (fd.Name.Name == "init" && fd.Recv == nil) {
				continue
			}
			ast.Inspect(fd.Body, func(n ast.Node) bool {
				switch x := n.(type) {
				case *ast.AssignStmt:
					for _, l := range x.Lhs {
						mark(l)
					}
				case *ast.IncDecStmt:
					mark(x.X)
				case *ast.CallExpr:
					// method calls on a global (m.Store(...), mu.Lock(), append into it via pointer) and &global
					if sel, ok := x.Fun.(*ast.SelectorExpr); ok {
						if id, ok := sel.X.(*ast.Ident); ok {
							if o := info.Uses[id]; o != nil {
								if g, ok := globals[o]; ok {
									t := g.obj.Type().String()
									if strings.Contains(t, "sync.") || strings.Contains(t, "atomic.") {
										written[o] = true
									}
									switch sel.Sel.Name {
									case "Store", "Delete", "LoadOrStore", "Swap", "Add", "CompareAndSwap", "Put", "Do", "Lock":
										written[o] = true
									}
								}
							}
						}
					}
					if id, ok := x.Fun.(*ast.Ident); ok && (id.Name == "delete" || id.Name == "clear") && len(x.Args) > 0 {
						mark(x.Args[0])
					}
				case *ast.UnaryExpr:
					if x.Op == token.AND {
						mark(x.X)
					}
				}
				return true
			})
		}
	}
	var out []lazyVar
	for o, g := range globals {
		t := o.Type().String()
		if !written[o] && !strings.Contains(t, "sync.") && !strings.Contains(t, "atomic.") {
			continue
		}
		lv := lazyVar{name: o.Name(), spec: g.spec, idx: g.idx, file: g.file}
		out = append(out, lv)
		rep.LazyGlobals = append(rep.LazyGlobals, lv.name)
	}
	sort.Slice(out, func(i, j int) bool { return out[i].name < out[j].name })
	sort.Strings(rep.LazyGlobals)
	return out
}
