package main

import (
	"verif/checks/c01"
	"verif/checks/c02"
	"verif/checks/c03"
	"verif/checks/c04"
	"verif/checks/c05"
	"verif/checks/c06"
	"verif/checks/c07"
	"verif/checks/c08"
	"verif/checks/c09"
	"verif/checks/c10"
	"verif/checks/c11"
	"verif/checks/c12"
	"verif/checks/c13"
	"verif/checks/c14"
	"verif/checks/c15"
	"verif/checks/c16"
	"verif/checks/c17"
	"verif/checks/c18"
	"verif/checks/c19"
	"verif/checks/c20"
)

func init() {
	register("C13", "model_checking", c13.Run)
	register("C14", "model_checking", c14.Run)
	register("C05", "exploration", c05.Run)
	register("C19", "model_checking", c19.Run)
	register("C20", "exploration", c20.Run)
	register("C18", "exploration", c18.Run)
	register("C15", "model_checking", c15.Run)
	register("C10", "exploration", c10.Run)
	register("C16", "exploration", c16.Run)
	register("C09", "exploration", c09.Run)
	register("C04", "exploration", c04.Run)
	register("C12", "model_checking", c12.Run)
	register("C08", "exploration", c08.Run)
	register("C17", "exploration", c17.Run)
	register("C03", "model_checking", c03.Run)
	register("C06", "model_checking", c06.Run)
	register("C02", "exploration", c02.Run)
	register("C07", "exploration", c07.Run)
	register("C01", "exploration", c01.Run)
	register("C11", "exploration", c11.Run)
}
