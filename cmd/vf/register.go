package main

import (
	"verif/checks/c11"
)

func init() {
	register("C11", "exploration", c11.Run)
}
