//go:build verif

package main

import (
	"fmt"
	"time"

	"github.com/google/jsonschema-go/jsonschema"

	"verif/internal/mc"
)

func init() {
	probe = func() {
		subs := c14Subjects(false)
		for _, sub := range subs {
			t := &mc.Tape{}
			jsonschema.VerifHooks.Order = func(site, n int) []int { return t.Perm(site, n) }
			jsonschema.VerifHooks.HashFamily = func() int { return t.Choose("hash", -1, 4, false) }
			t0 := time.Now()
			out := sub.run()
			clearHooks()
			alts := 0
			for _, p := range t.Points {
				alts += p.Arity - 1
			}
			fmt.Printf("%-40.40s points=%d alts=%d time=%v outlen=%d\n", sub.desc, len(t.Points), alts, time.Since(t0), len(out))
		}
	}
}
