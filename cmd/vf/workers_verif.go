//go:build verif

package main

import (
	"encoding/json"
	"fmt"
	"net/url"
	"os"
	"reflect"
	"sort"
	"strings"

	"github.com/google/jsonschema-go/jsonschema"

	"verif/checks/c11"
	"verif/checks/c12"
	"verif/checks/c14"
	"verif/internal/envrun"
	"verif/internal/gen"
	"verif/internal/mc"
	"verif/internal/ref"
)

func emit(w envrun.WorkerResult) {
	b, _ := json.Marshal(w)
	fmt.Printf("RESULT %s\n", b)
}

func workerMain(name, tier string, shard, nshards int) {
	thorough := tier == "thorough"
	switch name {
	case "c12hash":
		workerC12(thorough, shard, nshards)
	case "c14env":
		workerC14(thorough, shard, nshards)
	case "c19env":
		workerC19(thorough, shard, nshards)
	case "c16env":
		workerC16(thorough, shard, nshards)
	case "c13":
		workerC13(thorough, shard, nshards)
	case "transparency":
		workerTransparency()
	default:
		fmt.Fprintln(os.Stderr, "unknown worker", name)
		os.Exit(2)
	}
}

func clearHooks() {
	jsonschema.VerifHooks.Order = nil
	jsonschema.VerifHooks.HashFamily = nil
	jsonschema.VerifHooks.Point = nil
	jsonschema.VerifHooks.Block = nil
	jsonschema.VerifHooks.Spawn = nil
}

// workerTransparency: the instrumented build with all hooks at their defaults
// must reproduce every verdict of the official suite.
func workerTransparency() {
	clearHooks()
	loader, err := ref.SuiteLoader("/repo")
	cases, err2 := ref.LoadSuite("/repo")
	if err != nil || err2 != nil {
		fmt.Fprintln(os.Stderr, err, err2)
		os.Exit(2)
	}
	var w envrun.WorkerResult
	load := func(u *url.URL) (*jsonschema.Schema, error) {
		t, ok := loader[u.String()]
		if !ok {
			return nil, fmt.Errorf("no %s", u)
		}
		var s jsonschema.Schema
		if err := json.Unmarshal([]byte(t), &s); err != nil {
			return nil, err
		}
		return &s, nil
	}
	for _, c := range cases {
		var s jsonschema.Schema
		if err := json.Unmarshal([]byte(c.Schema), &s); err != nil {
			w.Failures = append(w.Failures, envrun.Failure{Key: c.File + "/" + c.Group, What: "unmarshal: " + err.Error()})
			continue
		}
		if s.Schema == "" && c.Draft == ref.D07 {
			s.Schema = "https://json-schema.org/draft-07/schema#"
		}
		rs, err := s.Resolve(&jsonschema.ResolveOptions{Loader: load})
		if err != nil {
			w.Failures = append(w.Failures, envrun.Failure{Key: c.File + "/" + c.Group, What: "resolve: " + err.Error()})
			continue
		}
		var inst any
		json.Unmarshal([]byte(c.Data), &inst)
		w.Executions++
		if (rs.Validate(inst) == nil) != c.Valid {
			w.Failures = append(w.Failures, envrun.Failure{Key: c.File + "/" + c.Group + "/" + c.Test, What: "verdict differs from the official expectation in the instrumented build"})
		}
	}
	emit(w)
}

// ---------------------------------------------------------------- C12

func workerC12(thorough bool, shard, nshards int) {
	var w envrun.WorkerResult
	w.Extra = map[string]any{}
	pool := c12.UniquePool()
	us := &jsonschema.Schema{UniqueItems: true}
	urs, err := us.Resolve(nil)
	if err != nil {
		panic(err)
	}
	maxLen := 3
	if thorough {
		maxLen = 4
	}
	fams := []string{"real maphash", "finest (FNV-1a of the byte stream)", "constant", "coarse (stream length mod 2)"}
	idx := 0
	var rec func(cur []int)
	rec = func(cur []int) {
		idx++
		if idx%nshards == shard {
			xs := make([]any, len(cur))
			ds := make([]string, len(cur))
			want := true
			for k, e := range cur {
				xs[k], ds[k] = pool[e].X, pool[e].Desc
				for q := 0; q < k; q++ {
					if pool[cur[q]].Canon == pool[e].Canon {
						want = false
					}
				}
			}
			w.Scenarios++
			for fam := range fams {
				f := fam
				jsonschema.VerifHooks.HashFamily = func() int { return f }
				got := urs.Validate(xs) == nil
				w.Executions++
				w.Points++
				if got != want {
					w.Failures = append(w.Failures, envrun.Failure{Key: "uniqueItems []any{" + strings.Join(ds, ", ") + "} under hash family " + fams[fam], Choices: []int{fam},
						What: fmt.Sprintf("want valid=%v, got %v", want, got)})
				}
			}
			if idx%20011 == 0 {
				w.Samples = append(w.Samples, map[string]any{"array": ds, "hash_families": fams, "want_valid": want})
			}
		}
		if len(cur) == maxLen {
			return
		}
		for i := range pool {
			rec(append(cur, i))
		}
	}
	rec(nil)
	// long arrays: n distinct numbers/strings/containers, then one duplicated pair at chosen
	// positions, the second occurrence in another representation of the same value
	if shard == 0 {
		elem := func(k int, alt bool) (any, string) {
			switch k % 4 {
			case 0:
				if alt {
					return int64(k), fmt.Sprintf("int64(%d)", k)
				}
				return float64(k), fmt.Sprintf("float64(%d)", k)
			case 1:
				if alt {
					return gen.MyStr(fmt.Sprintf("s%d", k)), fmt.Sprintf("MyStr(s%d)", k)
				}
				return fmt.Sprintf("s%d", k), fmt.Sprintf("%q", fmt.Sprintf("s%d", k))
			case 2:
				if alt {
					return []int{k, 1}, fmt.Sprintf("[]int{%d,1}", k)
				}
				return []any{float64(k), json.Number("1")}, fmt.Sprintf("[]any{%d,1}", k)
			}
			if alt {
				return map[gen.MyKey]int{"k": k, "z": 0}, fmt.Sprintf("map[MyKey]int{k:%d,z:0}", k)
			}
			return map[string]any{"z": 0.0, "k": float64(k)}, fmt.Sprintf("map[string]any{z:0,k:%d}", k)
		}
		for _, n := range []int{5, 8, 9, 10, 11, 12, 13, 16, 17, 33, 65, 129} {
			type dup struct{ i, j int }
			dups := []dup{{-1, -1}, {0, n - 1}, {n - 2, n - 1}, {0, 1}, {n / 2, n/2 + 1}, {1, n - 2}, {2, n - 1}, {3, n / 2}}
			for _, d := range dups {
				xs := make([]any, n)
				for k := range xs {
					xs[k], _ = elem(k, false)
				}
				desc := fmt.Sprintf("long array n=%d distinct", n)
				if d.i >= 0 && d.i != d.j && d.j < n {
					xs[d.j], _ = elem(d.i, true)
					desc = fmt.Sprintf("long array n=%d, element %d repeats element %d in another representation", n, d.j, d.i)
				} else if d.i >= 0 {
					continue
				}
				want := d.i < 0
				w.Scenarios++
				for fam := range fams {
					f := fam
					jsonschema.VerifHooks.HashFamily = func() int { return f }
					got := urs.Validate(xs) == nil
					w.Executions++
					w.Points++
					if got != want {
						w.Failures = append(w.Failures, envrun.Failure{Key: "uniqueItems " + desc + " under hash family " + fams[fam], Choices: []int{fam}, What: fmt.Sprintf("want valid=%v, got %v", want, got)})
					}
				}
			}
		}
		// typed top-level arrays
		for _, c := range []struct {
			x    any
			want bool
		}{{[]int{1, 1}, false}, {[]int{1, 2}, true}, {[2]float64{1, 1}, false}, {[3]float64{1, 2, 1.5}, true}, {[]map[string]int{{"a": 1, "b": 2}, {"b": 2, "a": 1}}, false}, {[]map[string]int{{"a": 1}, {"a": 2}}, true},
			{[][]int{{1}, {1}}, false}, {[][]int{{1, 2}, {2, 1}}, true}, {[]*int{nil, nil}, false}, {[]json.Number{"1", "1.0"}, false}, {[]json.Number{"1", "10e-1", "2"}, false}, {[]gen.MyStr{"a", "b"}, true}, {[]any{[]uint8{1, 2}, []uint8{1, 3}}, true},
			{[][]uint8{{1, 2}, {1, 2}}, false}, {[][]uint8{{1, 2}, {1, 3}, {1}}, true}, {[]map[gen.MyKey]any{{"a": nil}, {"a": (*int)(nil)}}, false}, {gen.MySlice{1.0, "1"}, true}} {
			w.Scenarios++
			for fam := range fams {
				f := fam
				jsonschema.VerifHooks.HashFamily = func() int { return f }
				got := urs.Validate(c.x) == nil
				w.Executions++
				w.Points++
				if got != c.want {
					w.Failures = append(w.Failures, envrun.Failure{Key: "uniqueItems " + gen.Describe(c.x) + " under hash family " + fams[fam], Choices: []int{fam}, What: fmt.Sprintf("want valid=%v, got %v", c.want, got)})
				}
			}
		}
	}
	w.States = w.Scenarios * len(fams)
	w.Bound = 1
	w.Outcomes = 1
	clearHooks()
	// map iteration order x hash family: arrays that hold maps with several keys
	{
		mk := func(desc string, xs any) envSubject {
			return envSubject{"uniqueItems " + desc, func() string { return fmt.Sprint(urs.Validate(xs) == nil) }, 3}
		}
		subs := []envSubject{
			mk("two equal 3-key maps (string keys / MyKey keys)", []any{map[string]any{"a": 1.0, "b": "x", "c": nil}, map[gen.MyKey]any{"c": nil, "b": "x", "a": 1}}),
			mk("two maps differing in one of 3 values", []any{map[string]any{"a": 1.0, "b": "x", "c": nil}, map[string]any{"a": 1.0, "b": "y", "c": nil}}),
			mk("equal nested maps", []any{map[string]any{"p": map[string]int{"x": 1, "y": 2}, "q": []any{map[string]any{"u": 1.0, "v": 2.0}}}, map[string]any{"q": []any{map[gen.MyKey]any{"v": 2, "u": 1}}, "p": map[string]any{"y": 2.0, "x": 1.0}}}),
			mk("three maps, first and last equal", []any{map[string]any{"a": 1.0, "b": 2.0}, map[string]any{"a": 2.0, "b": 1.0}, map[string]int{"b": 2, "a": 1}}),
			mk("maps with 5 keys (menu orders)", []any{map[string]any{"a": 1.0, "b": 2.0, "c": 3.0, "d": 4.0, "e": 5.0}, map[string]int{"e": 5, "d": 4, "c": 3, "b": 2, "a": 1}, map[string]any{"a": 1.0, "b": 2.0, "c": 3.0, "d": 4.0, "e": 6.0}}),
		}
		// wide objects (9 and 12 members): the two equal ones must be found whatever order each map is walked in
		wide := func(n int, typed bool, last float64) any {
			if typed {
				m := map[gen.MyKey]float64{}
				for k := 0; k < n; k++ {
					m[gen.MyKey(fmt.Sprintf("k%02d", k))] = float64(k)
				}
				m[gen.MyKey(fmt.Sprintf("k%02d", n-1))] = last
				return m
			}
			m := map[string]any{}
			for k := n - 1; k >= 0; k-- {
				m[fmt.Sprintf("k%02d", k)] = float64(k)
			}
			m[fmt.Sprintf("k%02d", n-1)] = last
			return m
		}
		subs = append(subs,
			mk("two equal 9-member maps", []any{wide(9, false, 8), wide(9, true, 8)}),
			mk("two equal 12-member maps after an unequal one", []any{wide(12, false, 99), wide(12, false, 11), wide(12, true, 11)}),
			mk("two 9-member maps differing in the last member", []any{wide(9, false, 8), wide(9, true, 7)}))
		ow := exploreSubjects(subs, shard, nshards, true)
		// expected verdicts of the default executions
		w.Executions += ow.Executions
		w.Points += ow.Points
		w.States += ow.States
		w.Failures = append(w.Failures, ow.Failures...)
		w.Capped = w.Capped || ow.Capped
		if ow.MaxDepth > w.MaxDepth {
			w.MaxDepth = ow.MaxDepth
		}
		w.Bound = 3
		w.Extra["order_x_hash_subjects"] = len(subs)
		if shard == 0 {
			for i, want := range []bool{false, true, false, false, false, false, false, true} {
				jsonschema.VerifResetLazyGlobals()
				if got := subs[i].run(); got != fmt.Sprint(want) {
					w.Failures = append(w.Failures, envrun.Failure{Key: subs[i].desc + " [default orders]", What: "want valid=" + fmt.Sprint(want) + ", got " + got})
				}
			}
		}
	}
	// hash law: Equal(x, y) => identical byte streams (same seed => identical hashes)
	if shard == 0 {
		items, err := c11.Items(thorough)
		if err != nil {
			fmt.Fprintln(os.Stderr, err)
			os.Exit(2)
		}
		byCanon := map[string][]c11.Item{}
		for _, it := range items {
			byCanon[it.Canon] = append(byCanon[it.Canon], it)
		}
		pairs := 0
		for _, cls := range byCanon {
			s0 := string(jsonschema.VerifHashStream(cls[0].X))
			for _, it := range cls[1:] {
				pairs++
				if s := string(jsonschema.VerifHashStream(it.X)); s != s0 {
					w.Failures = append(w.Failures, envrun.Failure{Key: "hash law: " + cls[0].Desc + " vs " + it.Desc, What: fmt.Sprintf("Equal values write different hash streams: %x vs %x", s0, s)})
				}
			}
		}
		w.Extra["hash_law_equal_pairs"] = pairs
		w.Extra["hash_law_classes"] = len(byCanon)
		w.Executions += pairs
	}
	emit(w)
}

// ---------------------------------------------------------------- C14

type envSubject struct {
	desc  string
	run   func() string // the whole pipeline; returns the canonical outcome
	bound int
}

func pipeline(text string, base string, docs map[string]string, insts []any) func() string {
	return func() string {
		var b strings.Builder
		var s jsonschema.Schema
		if err := json.Unmarshal([]byte(text), &s); err != nil {
			return "unmarshal-error"
		}
		var opts *jsonschema.ResolveOptions
		var log []string
		if docs != nil {
			opts = &jsonschema.ResolveOptions{BaseURI: base, Loader: func(u *url.URL) (*jsonschema.Schema, error) {
				log = append(log, u.String())
				t, ok := docs[u.String()]
				if !ok {
					return nil, fmt.Errorf("no %s", u)
				}
				var ls jsonschema.Schema
				if err := json.Unmarshal([]byte(t), &ls); err != nil {
					return nil, err
				}
				return &ls, nil
			}}
		}
		rs, err := s.Resolve(opts)
		if err != nil {
			b.WriteString("resolve-error;")
		} else {
			for _, in := range insts {
				if rs.Validate(in) == nil {
					b.WriteByte('1')
				} else {
					b.WriteByte('0')
				}
			}
			var x any = map[string]any{}
			if rs.ApplyDefaults(&x) == nil {
				d, _ := json.Marshal(x)
				b.Write(d)
			}
		}
		sort.Strings(log)
		b.WriteString(";loads=" + strings.Join(log, ","))
		m, err := json.Marshal(&s)
		if err != nil {
			b.WriteString(";marshal-error")
		} else {
			b.WriteString(";" + string(m))
		}
		if cm, err := json.Marshal(s.CloneSchemas()); err != nil || string(cm) != string(m) {
			b.WriteString(";clone differs: " + string(cm))
		}
		return b.String()
	}
}

func exploreSubjects(subs []envSubject, shard, nshards int, hashChoice bool) envrun.WorkerResult {
	var w envrun.WorkerResult
	only := os.Getenv("VF_ONLYKEY")
	for _, sub := range subs {
		if only != "" && !strings.HasPrefix(only, sub.desc) {
			continue
		}
		var want string
		first := true
		ex := &mc.Explorer{Bound: sub.bound, Shard: shard, NShards: nshards, MaxExec: 400000}
		ex.Run = func(t *mc.Tape) mc.Result {
			jsonschema.VerifHooks.Order = func(site, n int) []int { return t.Perm(site, n) }
			if hashChoice {
				jsonschema.VerifHooks.HashFamily = func() int { return t.Choose("hash", -1, 4, false) }
			}
			jsonschema.VerifResetLazyGlobals()
			out := sub.run()
			clearHooks()
			if first {
				want, first = out, false
				// the default execution is re-run once to seed `want` in every shard
			}
			r := mc.Result{Outcome: out, State: []string{sub.desc + "\x00" + fmt.Sprint(t.Choices)}}
			if out != want {
				r.Failure = fmt.Sprintf("outcome depends on map iteration order / hash family: default %q, now %q", trunc(want, 300), trunc(out, 300))
			}
			return r
		}
		if cs, ok := parseCompact(only); ok && only != "" {
			if shard == 0 {
				// seed `want` with the default execution, then replay the recorded one
				ex.Run(&mc.Tape{})
				return replayOne(sub.desc, ex.Run, cs)
			}
			return w
		}
		ex.Explore()
		if shard == 0 {
			w.Scenarios++
		}
		w.Executions += ex.Executions
		w.Points += ex.PointsSeen
		w.States += ex.States()
		if ex.MaxDepth > w.MaxDepth {
			w.MaxDepth = ex.MaxDepth
		}
		if len(ex.Outcomes) > w.Outcomes {
			w.Outcomes = len(ex.Outcomes)
		}
		w.Bound = sub.bound
		w.Capped = w.Capped || ex.Capped
		if ex.Divergence != nil {
			// Some nondeterminism of the code under test is not owned by the explorer
			// (e.g. a range over a pointer-keyed map). Decide by repetition whether it
			// is observable: identical free runs must give identical outcomes.
			clearHooks()
			seen := map[string]int{}
			for k := 0; k < 80; k++ {
				jsonschema.VerifResetLazyGlobals()
				seen[sub.run()]++
			}
			if len(seen) > 1 {
				var outs []string
				for o, n := range seen {
					outs = append(outs, fmt.Sprintf("%dx %s", n, trunc(o, 200)))
				}
				sort.Strings(outs)
				w.Failures = append(w.Failures, envrun.Failure{Key: sub.desc + " [unowned nondeterminism]", What: "80 identical free runs gave different outcomes (" + ex.Divergence.Error() + "): " + strings.Join(outs, " | ")})
			} else {
				w.Capped = true
				if w.Extra == nil {
					w.Extra = map[string]any{}
				}
				w.Extra["unowned_nondeterminism_without_observable_effect"] = sub.desc + ": " + ex.Divergence.Error()
			}
			continue
		}
		for i, f := range ex.Failures {
			if i >= 3 {
				break
			}
			w.Failures = append(w.Failures, envrun.Failure{Key: sub.desc + " choices " + compact(f.Choices), Choices: f.Choices, What: f.What})
		}
		if len(w.Samples) < 2 && shard == 0 {
			w.Samples = append(w.Samples, map[string]any{"scenario": sub.desc, "executions": ex.Executions, "choice_points_in_default_execution": ex.MaxDepth, "default_outcome": trunc(want, 200)})
		}
	}
	return w
}

func trunc(s string, n int) string {
	if len(s) > n {
		return s[:n] + "…"
	}
	return s
}

func c14Subjects(thorough bool) []envSubject {
	bound := 2
	if thorough {
		bound = 3
	}
	var insts []any
	for _, t := range c14.InstanceTexts {
		insts = append(insts, ref.MustParse(t).Plain())
	}
	// typed representations whose maps are ranged through reflect
	insts = append(insts, map[gen.MyKey]any{"b": 1.0, "a": "ab", "c": []int{1, 2}}, []any{map[string]int{"b": 1, "a": 2}, map[string]any{"a": 2.0, "b": 1.0}})
	var subs []envSubject
	for _, d := range c14.MapRichDocs {
		subs = append(subs, envSubject{"doc " + d, pipeline(d, "", nil, insts), bound})
	}
	// loader universes: outcome (incl. the set of loaded URIs) must not depend on traversal order
	mixed := map[string]string{
		"http://h/x.json": `{"$anchor":"foo","type":"integer","definitions":{"k":{"$id":"#k"}}}`,
		"http://h/y.json": `{"$schema":"http://json-schema.org/draft-07/schema#","properties":{"q":{"$ref":"x.json"}}}`,
		"http://h/z.json": `{"$defs":{"b":{"$ref":"x.json#foo"},"a":{"$ref":"y.json"}}}`,
	}
	subs = append(subs,
		envSubject{"loader mixed-draft", pipeline(`{"$id":"http://h/root.json","properties":{"b":{"$ref":"x.json#foo"},"a":{"$ref":"y.json"},"c":{"$ref":"z.json"}},"$defs":{"m":{"$ref":"y.json"},"l":{"$ref":"x.json#foo"}}}`, "http://h/root.json", mixed, insts), bound},
		envSubject{"loader diamond", pipeline(`{"properties":{"b":{"$ref":"d1.json"},"a":{"$ref":"d2.json#k"},"c":{"$ref":"d3.json#/$defs/t"}},"$defs":{"z":{"$ref":"d2.json"},"y":{"$ref":"d1.json#k"}}}`, "http://h/root.json", map[string]string{
			"http://h/d1.json": `{"$anchor":"k","properties":{"n":{"$ref":"d3.json#k"},"m":{"$ref":"d2.json"}}}`,
			"http://h/d2.json": `{"$id":"http://h/canon/d2.json","$anchor":"k","properties":{"n":{"$ref":"http://h/d3.json"}}}`,
			"http://h/d3.json": `{"$anchor":"k","type":"object","$defs":{"t":{"const":1},"u":{"$ref":"d1.json#k"}}}`,
		}, insts), bound},
	)
	return subs
}

func workerC14(thorough bool, shard, nshards int) {
	emit(exploreSubjects(c14Subjects(thorough), shard, nshards, true))
}

// ---------------------------------------------------------------- C19

func workerC19(thorough bool, shard, nshards int) {
	bound := 2
	if thorough {
		bound = 3
	}
	var subs []envSubject
	mk := func(desc string, s func() *jsonschema.Schema) {
		subs = append(subs, envSubject{desc, func() string {
			b, err := json.Marshal(s())
			if err != nil {
				return "error"
			}
			return string(b)
		}, bound})
	}
	props := func(names ...string) map[string]*jsonschema.Schema {
		m := map[string]*jsonschema.Schema{}
		for _, n := range names {
			m[n] = &jsonschema.Schema{Type: "integer"}
		}
		return m
	}
	orders := [][]string{nil, {}, {"c"}, {"c", "a"}, {"b", "zz", "a"}, {"d", "c", "b", "a"}, {"zz"}, {"a", "b", "c", "d"}, {"c", "b"}}
	for _, o := range orders {
		o := o
		mk(fmt.Sprintf("Marshal(properties {a,b,c,d} order=%q)", o), func() *jsonschema.Schema {
			return &jsonschema.Schema{Properties: props("a", "b", "c", "d"), PropertyOrder: o}
		})
		mk(fmt.Sprintf("Marshal(nested properties {a,b,c} order=%q with Extra, dependencies, $defs)", o), func() *jsonschema.Schema {
			return &jsonschema.Schema{
				Properties:        map[string]*jsonschema.Schema{"z": {Properties: props("a", "b", "c"), PropertyOrder: o}, "y": {Properties: props("c", "b"), PropertyOrder: []string{"b"}}, "x": {}},
				Extra:             map[string]any{"x-c": 1.0, "x-a": map[string]any{"k2": 1.0, "k1": 2.0}, "x-b": []any{1.0}},
				DependencySchemas: map[string]*jsonschema.Schema{"b": {}, "a": {Type: "integer"}}, DependencyStrings: map[string][]string{"d": {"a"}, "c": {"b"}},
				Defs: map[string]*jsonschema.Schema{"m": {}, "l": {Properties: props("b", "a"), PropertyOrder: o}}, PatternProperties: props("^b", "^a", "^c"),
				DependentRequired: map[string][]string{"b": {"a"}, "a": {"b"}}, DependentSchemas: props("q", "p"), Vocabulary: map[string]bool{"v2": true, "v1": false},
				PropertyOrder: []string{"y", "z"},
			}
		})
	}
	// schemas inferred by For (PropertyOrder = field order)
	for _, x := range []any{gen.Ints{}, gen.Ptrs{}, gen.Twice{}, gen.Emb2{}, gen.Opt{}} {
		t := reflect.TypeOf(x)
		mk("Marshal(ForType("+t.String()+"))", func() *jsonschema.Schema { s, _ := jsonschema.ForType(t, nil); return s })
	}
	emit(exploreSubjects(subs, shard, nshards, false))
}

// ---------------------------------------------------------------- C16

func workerC16(thorough bool, shard, nshards int) {
	bound := 2
	if thorough {
		bound = 3
	}
	var subs []envSubject
	over := func() map[reflect.Type]*jsonschema.Schema {
		mkS := func(m string) *jsonschema.Schema {
			return &jsonschema.Schema{Type: "object", Properties: map[string]*jsonschema.Schema{"zz" + m: {Type: "integer"}, "aa" + m: {Type: "string"}, "mm" + m: {Type: "boolean"}}}
		}
		return map[reflect.Type]*jsonschema.Schema{reflect.TypeOf(gen.Inner{}): mkS("I"), reflect.TypeOf(gen.Base{}): mkS("B"), reflect.TypeOf(gen.MyInt(0)): mkS("M"), reflect.TypeOf(gen.NamedStruct{}): mkS("N")}
	}
	for _, x := range []any{gen.EmbVal{}, gen.EmbPtr{}, gen.Emb2{}, gen.TopOver{}, gen.Twice{}, gen.ShadowAfter{}, gen.Ptrs{}, gen.Opt{}, gen.EmbNamedInt{}, []gen.NamedStruct{}, map[string]gen.EmbVal{}} {
		t := reflect.TypeOf(x)
		for _, withTS := range []bool{false, true} {
			withTS := withTS
			subs = append(subs, envSubject{fmt.Sprintf("ForType(%s, TypeSchemas=%v)", t, withTS), func() string {
				var o *jsonschema.ForOptions
				if withTS {
					o = &jsonschema.ForOptions{TypeSchemas: over()}
				}
				s, err := jsonschema.ForType(t, o)
				if err != nil {
					return "error: " + err.Error()
				}
				b, _ := json.Marshal(s)
				return fmt.Sprintf("%s order=%q required=%q", b, s.PropertyOrder, s.Required)
			}, bound})
		}
	}
	emit(exploreSubjects(subs, shard, nshards, false))
}

// compact renders a choice list by its non-default entries only: {position:choice ...} of length n.
func compact(cs []int) string {
	var b strings.Builder
	b.WriteByte('{')
	first := true
	for i, c := range cs {
		if c != 0 {
			if !first {
				b.WriteByte(' ')
			}
			first = false
			fmt.Fprintf(&b, "%d:%d", i, c)
		}
	}
	fmt.Fprintf(&b, "} of %d", len(cs))
	return b.String()
}

// parseCompact is the inverse of compact; ok is false if the key holds no choice list.
func parseCompact(key string) ([]int, bool) {
	i := strings.LastIndex(key, "{")
	j := strings.LastIndex(key, "} of ")
	if i < 0 || j < i {
		return nil, false
	}
	var n int
	if _, err := fmt.Sscan(key[j+5:], &n); err != nil || n < 0 || n > 10000000 {
		return nil, false
	}
	cs := make([]int, n)
	for _, f := range strings.Fields(key[i+1 : j]) {
		var pos, c int
		if _, err := fmt.Sscanf(f, "%d:%d", &pos, &c); err != nil || pos >= n {
			return nil, false
		}
		cs[pos] = c
	}
	return cs, true
}

// replayOne re-runs exactly one recorded execution and reports it like the explorer would.
func replayOne(desc string, run func(t *mc.Tape) mc.Result, choices []int) envrun.WorkerResult {
	var w envrun.WorkerResult
	r1, t1 := mc.Replay(run, choices)
	r2, t2 := mc.Replay(run, choices)
	w.Executions = 2
	w.Points = len(t1.Points) + len(t2.Points)
	w.Scenarios = 1
	fmt.Fprintf(os.Stderr, "replay of %s\n  choices: %s\n  outcome: %s\n  failure: %s\n", desc, compact(choices), trunc(r1.Outcome, 2000), r1.Failure)
	switch {
	case t1.Diverged != nil || t2.Diverged != nil:
		w.Divergence = fmt.Sprint(t1.Diverged, t2.Diverged)
	case r1.Outcome != r2.Outcome:
		w.Divergence = "the same choice list gave two different outcomes"
	case r1.Failure != "":
		w.Failures = append(w.Failures, envrun.Failure{Key: desc + " choices " + compact(choices), Choices: choices, What: r1.Failure})
	}
	return w
}
