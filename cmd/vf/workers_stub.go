//go:build !verif

package main

import (
	"fmt"
	"os"
)

func workerMain(name, tier string, shard, nshards int) {
	fmt.Fprintln(os.Stderr, "this binary was built without the instrumented package (tag verif)")
	os.Exit(2)
}
