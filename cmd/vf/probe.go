package main

var probe func()
