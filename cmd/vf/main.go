// vf is the single binary behind every check: `vf <Cxx> <quick|thorough> [--replay file]`.
//
// The parent process re-executes itself as a child so that a fatal runtime
// error of the code under test (stack overflow, out of memory — not recoverable
// in Go) is observed and reported instead of killing the reporter.
package main

import (
	"bytes"
	"encoding/json"
	"fmt"
	"io"
	"os"
	"os/exec"
	"path/filepath"
	"runtime/debug"
	"runtime/pprof"
	"strconv"
	"strings"
	"time"

	"verif/internal/drive"
	"verif/internal/ev"
	"verif/internal/par"
)

type checkFn func(r *ev.Run)

type check struct {
	level string
	run   checkFn
}

var checks = map[string]check{}

func register(id, level string, f checkFn) { checks[id] = check{level, f} }

func usage() {
	fmt.Fprintln(os.Stderr, "usage: vf <Cxx> <quick|thorough> [--replay file]")
	os.Exit(2)
}

func main() {
	if len(os.Args) < 3 {
		usage()
	}
	if os.Args[1] == "probe" && probe != nil {
		probe()
		return
	}
	if os.Args[1] == "worker" && len(os.Args) >= 6 {
		sh, _ := strconv.Atoi(os.Args[4])
		n, _ := strconv.Atoi(os.Args[5])
		if pf := os.Getenv("VF_CPUPROFILE"); pf != "" {
			f, _ := os.Create(pf)
			pprof.StartCPUProfile(f)
			defer pprof.StopCPUProfile()
		}
		if os.Args[2] == "c13race" {
			c13Race(os.Args[3] == "thorough", sh, n)
			return
		}
		workerMain(os.Args[2], os.Args[3], sh, n)
		return
	}
	id, tier := os.Args[1], os.Args[2]
	if tier == "--replay" && len(os.Args) >= 4 {
		// `vf Cxx --replay file`
		os.Args = []string{os.Args[0], id, "thorough", "--replay", os.Args[3]}
		tier = "thorough"
	}
	c, ok := checks[id]
	if !ok || (tier != "quick" && tier != "thorough") {
		usage()
	}
	if os.Getenv("VF_CHILD") == "" {
		os.Exit(parent(id))
	}
	debug.SetMaxStack(256 << 20)
	if jp := os.Getenv("VF_JOURNAL"); jp != "" {
		par.InitJournal(jp)
	}
	r := ev.New(id, tier, c.level)
	if k := os.Getenv("VF_ONLYKEY"); k != "" {
		r.OnlyKey = k
	}
	for i := 3; i+1 < len(os.Args); i++ {
		if os.Args[i] == "--replay" {
			k, err := ev.ReadReplayKey(os.Args[i+1])
			if err != nil {
				fmt.Fprintln(os.Stderr, "HARNESS-ERROR", err)
				os.Exit(2)
			}
			r.OnlyKey = k
		}
	}
	par.OnHang = func(what string) {
		r.Fail("hang: "+what, map[string]any{"class": "hang", "after_s": par.HangAfter.Seconds()})
		os.Exit(r.Finish())
	}
	if pf := os.Getenv("VF_CPUPROFILE"); pf != "" {
		f, _ := os.Create(pf)
		pprof.StartCPUProfile(f)
		defer pprof.StopCPUProfile()
	}
	c.run(r)
	pprof.StopCPUProfile()
	drive.FlushDump()
	os.Exit(r.Finish())
}

// parent runs the check in a child and turns an abnormal death into a report.
func parent(id string) int {
	work := os.Getenv("VF_WORK")
	if work == "" {
		work = os.TempDir()
	}
	jpath := filepath.Join(work, "journal."+id)
	cmd := exec.Command(os.Args[0], os.Args[1:]...)
	cmd.Env = append(os.Environ(), "VF_CHILD=1", "VF_JOURNAL="+jpath)
	cmd.Stdout = os.Stdout
	var tail tailBuf
	cmd.Stderr = io.MultiWriter(&capWriter{w: os.Stderr, left: 1 << 16}, &tail)
	err := cmd.Run()
	if err == nil {
		return 0
	}
	code := cmd.ProcessState.ExitCode()
	if code == 1 || (code == 2 && !isCrash(tail.String())) {
		return code
	}
	// The child died: fatal error, uncaught panic in a goroutine, or a signal.
	os.MkdirAll(filepath.Join(ev.Root, "replays"), 0o755)
	p := filepath.Join(ev.Root, "replays", fmt.Sprintf("%s-crash-%d.log", id, time.Now().Unix()))
	os.WriteFile(p, []byte(tail.String()), 0o644)
	fmt.Printf("the check process died (exit %d); last output saved to %s\n", code, p)
	// Which case was it? Re-run every case that was in flight, each in its own process.
	culprits := 0
	for i, k := range par.ReadJournal(jpath) {
		c2 := exec.Command(os.Args[0], os.Args[1:]...)
		c2.Env = append(os.Environ(), "VF_CHILD=1", "VF_ONLYKEY="+k, "VERIF_ROOT="+filepath.Join(work, "crashprobe"))
		var t2 tailBuf
		c2.Stderr = &t2
		if err := c2.Run(); err != nil && c2.ProcessState.ExitCode() != 1 && isCrash(t2.String()) {
			culprits++
			rp := filepath.Join(ev.Root, "replays", fmt.Sprintf("%s-crash-%d-%d.json", id, time.Now().Unix(), i))
			b, _ := json.MarshalIndent(map[string]any{"property": id, "case_key": k, "detail": map[string]any{"class": "fatal", "stderr_head": head(t2.String(), 3000)}}, "", " ")
			os.WriteFile(rp, b, 0o644)
			fmt.Printf("VIOLATION property=%s replay=%s\n  case: %s\n  fatal: %s\n", id, rp, head(k, 500), firstLine(t2.String()))
		}
	}
	if culprits == 0 {
		fmt.Printf("VIOLATION property=%s replay=%s\n", id, p)
	}
	return 1
}

func head(s string, n int) string {
	if len(s) > n {
		return s[:n]
	}
	return s
}

func firstLine(s string) string {
	for _, l := range strings.Split(s, "\n") {
		if strings.Contains(l, "fatal error:") || strings.HasPrefix(l, "panic:") {
			return l
		}
	}
	return head(s, 200)
}

func isCrash(s string) bool {
	return strings.Contains(s, "fatal error:") || strings.Contains(s, "goroutine ") && strings.Contains(s, "panic:")
}

type tailBuf struct{ b bytes.Buffer }

func (t *tailBuf) Write(p []byte) (int, error) {
	t.b.Write(p)
	if t.b.Len() > 1<<20 {
		b := t.b.Bytes()
		keep := append([]byte(nil), b[:1<<16]...) // head: the fatal message and first stack
		keep = append(keep, []byte("\n...\n")...)
		keep = append(keep, b[len(b)-(1<<16):]...)
		t.b.Reset()
		t.b.Write(keep)
	}
	return len(p), nil
}
func (t *tailBuf) String() string { return t.b.String() }

// capWriter forwards at most `left` bytes (a crashing child prints every goroutine's stack).
type capWriter struct {
	w    io.Writer
	left int
}

func (c *capWriter) Write(p []byte) (int, error) {
	if c.left > 0 {
		q := p
		if len(q) > c.left {
			q = q[:c.left]
		}
		c.w.Write(q)
		c.left -= len(q)
	}
	return len(p), nil
}
