//go:build verif && sched

package main

import (
	"fmt"
	"os"
	"strings"

	"github.com/google/jsonschema-go/jsonschema"

	"verif/internal/envrun"
	"verif/internal/mc"
	"verif/internal/sched"
)

func workerC13(thorough bool, shard, nshards int) {
	var w envrun.WorkerResult
	w.Extra = map[string]any{}
	only := os.Getenv("VF_ONLYKEY")
	perScenario := map[string]any{}
	for _, sc := range scenarios() {
		if only != "" && !strings.HasPrefix(only, sc.name) {
			continue
		}
		clearHooks()
		jsonschema.VerifResetLazyGlobals()
		want, _, ok := sequentialResults(sc)
		if !ok {
			// Already one-after-another the calls give order-dependent results or modify an input
			// they share (on the pinned tree no scenario does): concurrent callers then race on that
			// input, and there is no single sequential result to compare schedules with.
			if shard == 0 {
				w.Failures = append(w.Failures, envrun.Failure{Key: sc.name + " [sequential]", What: "the calls of this scenario, run one after another in different orders, give different results or leave a shared input modified"})
			}
			continue
		}
		nthreads := len(want)
		horizon := 0
		var run func(t *mc.Tape) mc.Result
		ex := &mc.Explorer{Shard: shard, NShards: nshards, MaxExec: 6000000}
		run = func(t *mc.Tape) mc.Result {
			clearHooks()
			jsonschema.VerifResetLazyGlobals()
			bodies, shared := sc.setup()
			before := shared()
			res := make([]string, len(bodies))
			wrapped := make([]func(), len(bodies))
			for i, b := range bodies {
				i, b := i, b
				wrapped[i] = func() { res[i] = b() }
			}
			e := sched.Run(t, wrapped, horizon, func(h sched.Hooks) {
				jsonschema.VerifHooks.Point = h.Point
				jsonschema.VerifHooks.Block = h.Block
				jsonschema.VerifHooks.Spawn = h.Spawn
			})
			clearHooks()
			if horizon == 0 {
				horizon = 10*e.Steps() + 1000
			}
			out := strings.Join(res, " | ")
			r := mc.Result{Outcome: out, State: e.States}
			switch {
			case e.Deadlock:
				r.Failure = "deadlock: no enabled thread"
			case e.Horizon:
				r.Failure = "step horizon exceeded (livelock?)"
			}
			for i, p := range e.Panics() {
				if p != "" {
					r.Failure = fmt.Sprintf("thread %d panicked: %s", i, p)
				}
			}
			if r.Failure == "" && out != strings.Join(want, " | ") {
				r.Failure = fmt.Sprintf("results under this schedule %q differ from the sequential results %q", out, strings.Join(want, " | "))
			}
			if r.Failure == "" && shared() != before {
				r.Failure = "a shared input was modified"
			}
			// state = per-thread positions are folded into the choice prefix
			r.State = append(r.State, sc.name+fmt.Sprint(t.Choices))
			return r
		}
		if cs, ok := parseCompact(only); ok && only != "" {
			if shard == 0 {
				run(&mc.Tape{}) // fixes the horizon
				rw := replayOne(sc.name, run, cs)
				for i := range rw.Failures {
					rw.Failures[i].Key = sc.name + " schedule " + compact(cs)
				}
				emit(rw)
			} else {
				emit(envrun.WorkerResult{})
			}
			return
		}
		// Choose the preemption bound: the largest b <= 3 whose number of schedules
		// (estimated from the alternatives of the default execution) fits the budget.
		probe := &mc.Tape{}
		run(probe)
		alts := 0.0
		for _, p := range probe.Points {
			if !p.Free {
				alts += float64(p.Arity - 1)
			}
		}
		budget := 40000.0
		maxB := 2
		if thorough {
			budget, maxB = 4000000.0, 3
		}
		bound := 0
		est := 1.0
		for b := 1; b <= maxB; b++ {
			est = est * alts / float64(b)
			if est > budget {
				break
			}
			bound = b
		}
		if bstr := os.Getenv("VF_BOUND"); bstr != "" {
			fmt.Sscan(bstr, &bound)
		}
		ex.Bound = bound
		ex.Run = run
		ex.Explore()
		if shard == 0 {
			w.Scenarios++
		}
		w.Executions += ex.Executions
		w.Points += ex.PointsSeen
		w.States += ex.States()
		if ex.MaxDepth > w.MaxDepth {
			w.MaxDepth = ex.MaxDepth
		}
		if len(ex.Outcomes) > w.Outcomes {
			w.Outcomes = len(ex.Outcomes)
		}
		if w.Bound == 0 || bound < w.Bound {
			w.Bound = bound // the smallest completed bound over the scenarios
		}
		w.Capped = w.Capped || ex.Capped
		if ex.Divergence != nil && w.Divergence == "" {
			w.Divergence = sc.name + ": " + ex.Divergence.Error()
		}
		for i, f := range ex.Failures {
			if i >= 3 {
				break
			}
			w.Failures = append(w.Failures, envrun.Failure{Key: sc.name + " schedule " + compact(f.Choices), Choices: f.Choices, What: f.What})
		}
		perScenario[sc.name] = map[string]any{"threads": nthreads, "preemption_bound": bound, "executions_this_shard": ex.Executions, "scheduling_points_in_longest_execution": ex.MaxDepth, "distinct_outcomes": len(ex.Outcomes)}
		if shard == 0 && len(w.Samples) < 3 {
			w.Samples = append(w.Samples, map[string]any{"scenario": sc.name, "threads": nthreads, "preemption_bound": bound, "sequential_results": want})
		}
	}
	if shard == 0 {
		w.Extra["per_scenario_shard0"] = perScenario
	}
	emit(w)
}
