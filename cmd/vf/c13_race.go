package main

import (
	"fmt"
	"runtime"
	"strings"
	"sync"

	"verif/internal/envrun"
)

// c13Race is the free-running pass of C13 (built with -race): the same scenario
// bodies, released from a barrier, with cold caches in every process. The race
// detector reports unsynchronised conflicting accesses (exit code 66); result
// differences are reported by this function.
func c13Race(thorough bool, shard, nshards int) {
	iters := 20
	if thorough {
		iters = 50
	}
	runtime.GOMAXPROCS([]int{2, 4, 16}[shard%3])
	var w envrun.WorkerResult
	scs := scenarios()
	// every process starts with a different scenario, so that each one is at some
	// point the first user of the cold process-wide caches
	rot := shard % len(scs)
	scs = append(scs[rot:], scs[:rot]...)
	for _, sc := range scs {
		// The concurrent iterations come first (cold caches); the sequential
		// reference is computed afterwards.
		var all [][]string
		for it := 0; it < iters; it++ {
			bodies, shared := sc.setup()
			before := shared()
			res := make([]string, len(bodies))
			var start, done sync.WaitGroup
			start.Add(1)
			for i, b := range bodies {
				done.Add(1)
				go func(i int, b func() string) {
					defer done.Done()
					defer func() {
						if r := recover(); r != nil {
							res[i] = fmt.Sprint("panic: ", r)
						}
					}()
					start.Wait()
					res[i] = b()
				}(i, b)
			}
			start.Done()
			done.Wait()
			w.Executions++
			all = append(all, res)
			if shared() != before {
				w.Failures = append(w.Failures, envrun.Failure{Key: sc.name + " [free run, shared input]", What: "a shared input was modified"})
				break
			}
		}
		want, _, _ := sequentialResults(sc)
		for _, res := range all {
			if strings.Join(res, "\x00") != strings.Join(want, "\x00") {
				w.Failures = append(w.Failures, envrun.Failure{Key: sc.name + " [free run]", What: fmt.Sprintf("concurrent results %q differ from sequential results %q", res, want)})
				break
			}
		}
		w.Scenarios++
	}
	emit2(w)
}
