//go:build verif && !sched

package main

func workerC13(thorough bool, shard, nshards int) {}
