package main

import (
	"encoding/json"
	"fmt"

	"verif/internal/envrun"
)

func emit2(w envrun.WorkerResult) {
	b, _ := json.Marshal(w)
	fmt.Printf("RESULT %s\n", b)
}
