package main

import (
	"encoding/json"
	"fmt"
	"net/url"
	"reflect"
	"sort"
	"strings"
	"sync"
	"sync/atomic"

	"github.com/google/jsonschema-go/jsonschema"

	"verif/internal/gen"
)

// A scenario is a small closed concurrent harness: setup builds fresh shared
// inputs and returns one body per thread (each returns its observable result)
// and a snapshot function over the shared inputs.
type scenario struct {
	name  string
	setup func() (bodies []func() string, shared func() string)
}

const c13Schema = `{"$id":"http://h/root.json","type":"object","required":["k"],
 "properties":{"k":{"type":"string","pattern":"^[ab]"},"list":{"$ref":"list.json"},"u":{"uniqueItems":true}},
 "patternProperties":{"^x":{"type":"integer"}},
 "if":{"properties":{"k":{"const":"a"}}},"then":{"$ref":"num.json"},"else":{"$ref":"str.json"},
 "unevaluatedProperties":false,
 "$defs":{
  "num":{"$id":"num.json","$defs":{"e":{"$dynamicAnchor":"T","type":"integer"}},"properties":{"n":{"$ref":"list.json"}}},
  "str":{"$id":"str.json","$defs":{"e":{"$dynamicAnchor":"T","type":"string"}},"properties":{"s":{"$ref":"list.json"}}},
  "list":{"$id":"list.json","items":{"$dynamicRef":"#T"},"$defs":{"any":{"$dynamicAnchor":"T"}}}}}`

var freshCounter atomic.Int64

var (
	schemaCache   = map[string]*jsonschema.Schema{}
	schemaCacheMu sync.Mutex
)

// cachedSchema unmarshals a document once per process; the *Schema is then
// shared by all executions of a scenario (its digest is compared with the
// pristine one after every execution, so a write to it is caught).
func cachedSchema(text string) *jsonschema.Schema {
	schemaCacheMu.Lock()
	defer schemaCacheMu.Unlock()
	if s, ok := schemaCache[text]; ok {
		return s
	}
	var s jsonschema.Schema
	if err := json.Unmarshal([]byte(text), &s); err != nil {
		panic(err)
	}
	schemaCache[text] = &s
	return &s
}

func mustResolve(text string, opts *jsonschema.ResolveOptions) (*jsonschema.Schema, *jsonschema.Resolved) {
	s := cachedSchema(text)
	rs, err := s.Resolve(opts)
	if err != nil {
		panic(err)
	}
	return s, rs
}

func verdict(rs *jsonschema.Resolved, inst any) string {
	if err := rs.Validate(inst); err != nil {
		return "invalid"
	}
	return "valid"
}

func decode(t string) any {
	var x any
	if err := json.Unmarshal([]byte(t), &x); err != nil {
		panic(err)
	}
	return x
}

type defStruct struct {
	A int    `json:"a"`
	B string `json:"b,omitempty"`
}

func scenarios() []scenario {
	valInsts := []string{
		`{"k":"a","n":[1,2],"x1":3}`,      // valid through num.json
		`{"k":"b","s":["p"],"u":[1,"1"]}`, // valid through str.json
		`{"k":"a","n":["p"]}`,             // invalid: string item under the integer anchor
		`{"k":"b","s":[1],"zz":1}`,        // invalid
	}
	defSchema := `{"type":"object","properties":{"a":{"default":1},"b":{"default":{"c":2},"properties":{"c":{"default":3},"d":{"default":[1]}}},"r":{"default":9}},"required":["r"]}`
	var out []scenario
	out = append(out, scenario{"V2: 2 x Validate on one Resolved (dynamic scope, annotations, regexps, required sets)", func() ([]func() string, func() string) {
		s, rs := mustResolve(c13Schema, nil)
		i1, i2 := decode(valInsts[0]), decode(valInsts[3])
		return []func() string{
			func() string { return verdict(rs, i1) },
			func() string { return verdict(rs, i2) },
		}, func() string { return digest(s) + digest(i1) + digest(i2) }
	}})
	out = append(out, scenario{"V2b: 2 x Validate, both valid through different dynamic scopes", func() ([]func() string, func() string) {
		s, rs := mustResolve(c13Schema, nil)
		i1, i2 := decode(valInsts[0]), decode(valInsts[1])
		return []func() string{
			func() string { return verdict(rs, i1) },
			func() string { return verdict(rs, i2) },
		}, func() string { return digest(s) }
	}})
	out = append(out, scenario{"V3: 3 x Validate on one Resolved", func() ([]func() string, func() string) {
		s, rs := mustResolve(`{"$id":"http://h/r.json","properties":{"k":{"pattern":"^a"},"l":{"$ref":"l.json"}},"required":["k"],"if":{"required":["n"]},"then":{"$ref":"n.json"},"unevaluatedProperties":false,"$defs":{"n":{"$id":"n.json","$defs":{"e":{"$dynamicAnchor":"T","type":"integer"}},"properties":{"n":{"$ref":"l.json"}}},"l":{"$id":"l.json","items":{"$dynamicRef":"#T"},"$defs":{"a":{"$dynamicAnchor":"T","type":"string"}}}}}`, nil)
		is := []any{decode(`{"k":"a","n":[1]}`), decode(`{"k":"a","l":["s"]}`), decode(`{"k":"b","l":[1]}`)}
		var bs []func() string
		for _, in := range is {
			in := in
			bs = append(bs, func() string { return verdict(rs, in) })
		}
		return bs, func() string { return digest(s) }
	}})
	out = append(out, scenario{"UU: 2 x Validate with uniqueItems (per-call hash seed, buckets) on one Resolved", func() ([]func() string, func() string) {
		s, rs := mustResolve(`{"uniqueItems":true,"items":{"uniqueItems":true}}`, nil)
		i1 := decode(`[[1,"1",1.0],[{"a":1,"b":[2]},{"b":[2],"a":1.0}],[]]`)
		i2 := decode(`[[1,2],[{"a":1},{"a":2}],["x","y","z"],[[1],[2]]]`)
		i3 := []any{[]any{1.0, json.Number("2"), int8(3)}, []any{map[string]int{"a": 1}}}
		return []func() string{
			func() string { return verdict(rs, i1) },
			func() string { return verdict(rs, i2) },
			func() string { return verdict(rs, i3) },
		}, func() string { return digest(s) + digest(i1) + digest(i2) }
	}})
	wide := `"type":["object","array","integer"],"enum":[{"k":"a","n":3,"l":[1,"x"]},{"k":"b"},[1,2,2.5],[1,"x"],7,{"k":"a","n":4,"extra":1}],
 "properties":{"k":{"const":"a"},"n":{"type":"integer","minimum":1,"maximum":10,"exclusiveMinimum":0,"exclusiveMaximum":11,"multipleOf":1},"l":{"contains":{"type":"string","minLength":1,"maxLength":3},"maxItems":3,"minItems":1}},
 "required":["k"],"propertyNames":{"pattern":"^[a-z]+$"},"minProperties":1,"maxProperties":4,
 "allOf":[{"anyOf":[{"required":["n"]},{"type":"array"},{"type":"integer"}]},{"oneOf":[{"type":"object"},{"type":"array"},{"const":7}]},{"not":{"const":8}}],
 "if":{"type":"array"},"then":{"items":{"type":"number"},"uniqueItems":true},"else":{"additionalProperties":{"type":["integer","string","array"]}}`
	mkWide := func(name, head, tail string) {
		out = append(out, scenario{name, func() ([]func() string, func() string) {
			s, rs := mustResolve("{"+head+wide+tail+"}", nil)
			is := []any{decode(`{"k":"a","n":3,"l":[1,"x"]}`), decode(`{"k":"a","n":4,"extra":1}`), decode(`[1,2,2.5]`)}
			var bs []func() string
			for _, in := range is {
				in := in
				bs = append(bs, func() string { return verdict(rs, in) })
			}
			return bs, func() string { return digest(s) }
		}})
	}
	mkWide("WIDE: 3 x Validate on one Resolved over every keyword group (2020-12)", "", `,"dependentRequired":{"n":["k"]},"dependentSchemas":{"l":{"required":["n"]}},"prefixItems":[{"type":"integer"}],"unevaluatedItems":{"type":"number"},"patternProperties":{"^l$":{"type":"array"}},"unevaluatedProperties":false`)
	mkWide("WIDE07: 3 x Validate on one Resolved over every keyword group (draft-07)", `"$schema":"http://json-schema.org/draft-07/schema#",`, `,"dependencies":{"n":["k"],"l":{"required":["n"]}},"patternProperties":{"^l$":{"type":"array"}},"definitions":{"d":{"type":"integer"}}`)
	out = append(out, scenario{"RVD: Resolve(ValidateDefaults) x 2 racing Validate on an older Resolved of the same tree (patterns, required sets, defaults)", func() ([]func() string, func() string) {
		text := `{"type":"object","properties":{"k":{"type":"string","pattern":"^[ab]","default":"a"},"n":{"type":"integer","default":1,"minimum":0}},"patternProperties":{"^x":{"type":"integer","default":2}},"required":["k"],"propertyNames":{"pattern":"^[a-z]"}}`
		s, old := mustResolve(text, nil)
		i := decode(`{"k":"b","n":2,"x1":3}`)
		res := func() string {
			rs, err := s.Resolve(&jsonschema.ResolveOptions{ValidateDefaults: true})
			if err != nil {
				return "resolve error: " + err.Error()
			}
			return verdict(rs, decode(`{"k":"c"}`))
		}
		return []func() string{res, res, func() string { return verdict(old, i) }}, func() string { return digest(s) + digest(i) }
	}})
	out = append(out, scenario{"RRP: 2 x Unmarshal+Resolve of schemas whose regular expressions were never compiled before in this process", func() ([]func() string, func() string) {
		// fresh expressions in every execution: a process-wide cache keyed by the expression stays cold
		c := freshCounter.Add(1)
		body := func(k int) func() string {
			return func() string {
				text := fmt.Sprintf(`{"type":"object","properties":{"k":{"pattern":"^k%d_%d"}},"patternProperties":{"^x%d_%d":{"type":"integer"},"^y%d_%d$":{"pattern":"z%d"}},"propertyNames":{"pattern":"^[a-z]"}}`, c, k, c, k, c, k, c)
				var s jsonschema.Schema
				if err := json.Unmarshal([]byte(text), &s); err != nil {
					return "unmarshal error"
				}
				rs, err := s.Resolve(nil)
				if err != nil {
					return "resolve error: " + err.Error()
				}
				return verdict(rs, map[string]any{"k": fmt.Sprintf("k%d_%d!", c, k), fmt.Sprintf("x%d_%d", c, k): 1.0}) + verdict(rs, map[string]any{"k": "nope"}) + verdict(rs, map[string]any{fmt.Sprintf("x%d_%dq", c, k): "s"})
			}
		}
		return []func() string{body(1), body(2)}, func() string { return "" }
	}})
	out = append(out, scenario{"AD: 2 x ApplyDefaults (distinct instances) + Validate on one Resolved", func() ([]func() string, func() string) {
		s, rs := mustResolve(defSchema, nil)
		var a, b any = decode(`{}`), decode(`{"b":{"d":0},"r":1}`)
		c := decode(`{"r":1,"a":"x"}`)
		apply := func(p *any) func() string {
			return func() string {
				if err := rs.ApplyDefaults(p); err != nil {
					return "error"
				}
				j, _ := json.Marshal(*p)
				return string(j)
			}
		}
		return []func() string{apply(&a), apply(&b), func() string { return verdict(rs, c) }}, func() string { return digest(s) + digest(c) }
	}})
	out = append(out, scenario{"ADM: 2 x ApplyDefaults inserting the same container defaults, each caller then edits its own instance", func() ([]func() string, func() string) {
		s, rs := mustResolve(`{"type":"object","properties":{"b":{"default":{"c":2},"properties":{"c":{"default":3},"d":{"default":[1]}}},"l":{"default":[[1],{"k":[2]}]}}}`, nil)
		var a, b any = decode(`{}`), decode(`{"x":1}`)
		apply := func(p *any, id int) func() string {
			return func() string {
				if err := rs.ApplyDefaults(p); err != nil {
					return "error"
				}
				// the inserted containers belong to this caller's instance alone
				m := (*p).(map[string]any)
				if bm, ok := m["b"].(map[string]any); ok {
					bm["mine"] = id
					if d, ok := bm["d"].([]any); ok && len(d) > 0 {
						d[0] = id
					}
				}
				if l, ok := m["l"].([]any); ok && len(l) == 2 {
					if in, ok := l[0].([]any); ok && len(in) > 0 {
						in[0] = id
					}
					if in, ok := l[1].(map[string]any); ok {
						in["mine"] = id
					}
				}
				j, _ := json.Marshal(*p)
				return string(j)
			}
		}
		return []func() string{apply(&a, 1), apply(&b, 2)}, func() string { return digest(s) }
	}})
	out = append(out, scenario{"ADS: 2 x ApplyDefaults into maps with struct elements (struct field cache, cold)", func() ([]func() string, func() string) {
		s, rs := mustResolve(`{"properties":{"p":{"properties":{"a":{"default":1}}}}}`, nil)
		m1 := map[string]defStruct{"p": {A: 1}}
		m2 := map[string]defStruct{"p": {B: "x"}}
		apply := func(m *map[string]defStruct) func() string {
			return func() string {
				err := rs.ApplyDefaults(m)
				j, _ := json.Marshal(*m)
				return fmt.Sprintf("%v %s", err != nil, j)
			}
		}
		return []func() string{apply(&m1), apply(&m2)}, func() string { return digest(s) }
	}})
	out = append(out, scenario{"MU: Marshal || Unmarshal of schemas with unknown keywords (JSON name cache, cold)", func() ([]func() string, func() string) {
		var s jsonschema.Schema
		if err := json.Unmarshal([]byte(`{"type":"object","properties":{"b":{"x-k":1},"a":{"type":"integer"}},"x-extra":[1]}`), &s); err != nil {
			panic(err)
		}
		return []func() string{
			func() string { b, err := json.Marshal(&s); return fmt.Sprint(string(b), err) },
			func() string {
				var t jsonschema.Schema
				err := json.Unmarshal([]byte(`{"title":"t","x-z":{"q":1},"items":{"x-y":2}}`), &t)
				b, _ := json.Marshal(&t)
				return fmt.Sprint(string(b), err)
			},
		}, func() string { return digest(&s) }
	}})
	out = append(out, scenario{"CMR: CloneSchemas || Marshal || Resolve on one Schema tree", func() ([]func() string, func() string) {
		s := *cachedSchema(`{"properties":{"b":{"pattern":"^a","required":["z","y"]},"a":{"$ref":"#/$defs/d"}},"patternProperties":{"^p":{"minimum":1}},"$defs":{"d":{"enum":[3,1,2]}},"required":["b","a"]}`)
		i := decode(`{"a":1,"b":"ab","p1":2}`)
		return []func() string{
			func() string { c := s.CloneSchemas(); b, _ := json.Marshal(c); return string(b) },
			func() string { b, err := json.Marshal(&s); return fmt.Sprint(string(b), err) },
			func() string {
				rs, err := s.Resolve(nil)
				if err != nil {
					return "resolve error"
				}
				return verdict(rs, i)
			},
		}, func() string { return digest(&s) }
	}})
	out = append(out, scenario{"MM: 2 x Marshal of one Schema whose PropertyOrder slice has spare capacity and leaves three properties unlisted", func() ([]func() string, func() string) {
		order := make([]string, 0, 8)
		order = append(order, "m", "zz")
		sub := make([]string, 0, 4)
		sub = append(sub, "q")
		s := &jsonschema.Schema{Type: "object", PropertyOrder: order, Properties: map[string]*jsonschema.Schema{
			"m": {Type: "integer"}, "c": {Type: "string"}, "a": {}, "b": {Properties: map[string]*jsonschema.Schema{"q": {}, "p": {}, "o": {}}, PropertyOrder: sub}}}
		body := func() string { b, err := json.Marshal(s); return fmt.Sprint(string(b), err) }
		return []func() string{body, body}, func() string {
			// the whole backing arrays, beyond len
			return digest(s) + fmt.Sprint(order[:cap(order)], sub[:cap(sub)])
		}
	}})
	out = append(out, scenario{"CC: 2 x CloneSchemas of one tree; each clone must be complete and share no Schema object with the original", func() ([]func() string, func() string) {
		s := cachedSchema(`{"properties":{"b":{"items":{"not":{"type":"integer"}},"allOf":[{"required":["z"]},{"anyOf":[{"minimum":1},{"const":2}]}]},"a":{"$ref":"#/$defs/d"}},"$defs":{"d":{"enum":[3,1,2],"if":{"type":"array"},"then":{"prefixItems":[{},{"contains":{}}]}}},"dependentSchemas":{"k":{"propertyNames":{"maxLength":3}}}}`)
		orig := map[*jsonschema.Schema]bool{}
		var walk func(x *jsonschema.Schema, f func(*jsonschema.Schema))
		walk = func(x *jsonschema.Schema, f func(*jsonschema.Schema)) {
			if x == nil {
				return
			}
			f(x)
			for _, c := range []*jsonschema.Schema{x.Items, x.Not, x.If, x.Then, x.Else, x.Contains, x.PropertyNames, x.AdditionalProperties} {
				walk(c, f)
			}
			for _, l := range [][]*jsonschema.Schema{x.AllOf, x.AnyOf, x.OneOf, x.PrefixItems} {
				for _, c := range l {
					walk(c, f)
				}
			}
			for _, m := range []map[string]*jsonschema.Schema{x.Properties, x.Defs, x.DependentSchemas, x.PatternProperties} {
				ks := make([]string, 0, len(m))
				for k := range m {
					ks = append(ks, k)
				}
				sort.Strings(ks)
				for _, k := range ks {
					walk(m[k], f)
				}
			}
		}
		walk(s, func(x *jsonschema.Schema) { orig[x] = true })
		body := func() string {
			c := s.CloneSchemas()
			shared, n := 0, 0
			walk(c, func(x *jsonschema.Schema) {
				n++
				if orig[x] {
					shared++
				}
			})
			b, _ := json.Marshal(c)
			return fmt.Sprintf("objects=%d shared_with_original=%d %s", n, shared, b)
		}
		return []func() string{body, body}, func() string { return digest(s) }
	}})
	out = append(out, scenario{"RR: 2 x Resolve of one root Schema through a Loader, Validate on each result", func() ([]func() string, func() string) {
		s := *cachedSchema(`{"$id":"http://h/r.json","properties":{"a":{"$ref":"d.json#k"},"b":{"$ref":"d.json"}},"required":["a"]}`)
		load := func(u *url.URL) (*jsonschema.Schema, error) {
			var d jsonschema.Schema
			if err := json.Unmarshal([]byte(`{"$anchor":"k","type":"integer","$defs":{"x":{"$ref":"r.json"}}}`), &d); err != nil {
				return nil, err
			}
			return &d, nil
		}
		i1, i2 := decode(`{"a":1,"b":2}`), decode(`{"a":"x"}`)
		body := func(in any) func() string {
			return func() string {
				rs, err := s.Resolve(&jsonschema.ResolveOptions{Loader: load})
				if err != nil {
					return "resolve error: " + err.Error()
				}
				return verdict(rs, in)
			}
		}
		return []func() string{body(i1), body(i2)}, func() string { return digest(&s) }
	}})
	out = append(out, scenario{"FF: 2 x For of types sharing named parts, with and without TypeSchemas", func() ([]func() string, func() string) {
		ts := map[reflect.Type]*jsonschema.Schema{reflect.TypeOf(gen.Inner{}): {Type: "object", Properties: map[string]*jsonschema.Schema{"zz": {Type: "integer"}, "aa": {Type: "string"}}}}
		f := func(t reflect.Type, o *jsonschema.ForOptions) func() string {
			return func() string {
				s, err := jsonschema.ForType(t, o)
				if err != nil {
					return "error " + err.Error()
				}
				b, _ := json.Marshal(s)
				scribbleOwn(s, "edited by the caller of "+t.String())
				return string(b)
			}
		}
		return []func() string{f(reflect.TypeOf(gen.Twice{}), &jsonschema.ForOptions{TypeSchemas: ts}), f(reflect.TypeOf(gen.EmbVal{}), &jsonschema.ForOptions{TypeSchemas: ts}), f(reflect.TypeOf(gen.Marsh{}), nil)},
			func() string {
				var ks []string
				for k, v := range ts {
					ks = append(ks, k.String()+digest(v))
				}
				sort.Strings(ks)
				return strings.Join(ks, ";")
			}
	}})
	out = append(out, scenario{"FF6: 2 x For sharing one ForOptions whose TypeSchemas has more entries than the default table", func() ([]func() string, func() string) {
		mk := func(n string) *jsonschema.Schema {
			return &jsonschema.Schema{Type: "object", Properties: map[string]*jsonschema.Schema{"o_" + n: {Type: "integer"}}}
		}
		ts := map[reflect.Type]*jsonschema.Schema{
			reflect.TypeOf(gen.Inner{}): mk("inner"), reflect.TypeOf(gen.Inner2{}): mk("inner2"), reflect.TypeOf(gen.Base{}): mk("base"), reflect.TypeOf(gen.NamedStruct{}): mk("named"),
			reflect.TypeOf(gen.MyInt(0)): {Type: "integer"}, reflect.TypeOf(gen.MyStr("")): {Type: "string"}, reflect.TypeOf(gen.EmptyS{}): mk("empty"), reflect.TypeOf(gen.Described{}): mk("described"),
		}
		opts := &jsonschema.ForOptions{TypeSchemas: ts}
		f := func(t reflect.Type) func() string {
			return func() string {
				s, err := jsonschema.ForType(t, opts)
				if err != nil {
					return "error " + err.Error()
				}
				b, _ := json.Marshal(s)
				scribbleOwn(s, "edited by the caller of "+t.String())
				return string(b)
			}
		}
		return []func() string{f(reflect.TypeOf(gen.Twice{})), f(reflect.TypeOf(gen.Marsh{}))},
			func() string {
				var ks []string
				for k, v := range ts {
					ks = append(ks, k.String()+digest(v))
				}
				sort.Strings(ks)
				return strings.Join(ks, ";")
			}
	}})
	out = append(out, scenario{"FTN: 2 x For of types that reach one TypeSchemas entry through pointers; the entry lists Types in a slice with spare capacity", func() ([]func() string, func() string) {
		ts := map[reflect.Type]*jsonschema.Schema{
			reflect.TypeOf(gen.MyInt(0)):  {Types: append(make([]string, 0, 4), "string", "integer")},
			reflect.TypeOf(gen.MyStr("")): {Types: append(make([]string, 0, 8), "null", "string"), Enum: append(make([]any, 0, 4), "a", nil)},
			reflect.TypeOf(gen.Inner{}):   {Type: "object", Required: append(make([]string, 0, 4), "x"), Properties: map[string]*jsonschema.Schema{"x": {Type: "integer"}}},
		}
		opts := &jsonschema.ForOptions{TypeSchemas: ts}
		f := func(t reflect.Type) func() string {
			return func() string {
				s, err := jsonschema.ForType(t, opts)
				if err != nil {
					return "error " + err.Error()
				}
				b, _ := json.Marshal(s)
				scribbleOwn(s, "edited by the caller of "+t.String())
				return string(b)
			}
		}
		type h1 struct {
			P *gen.MyInt
			Q gen.MyInt
			S *gen.MyStr
			I *gen.Inner
		}
		type h2 struct {
			L []*gen.MyInt
			M map[string]*gen.MyStr
			I **gen.Inner
			Q *gen.MyInt `json:"q,omitempty"`
		}
		return []func() string{f(reflect.TypeOf(h1{})), f(reflect.TypeOf(&h2{}))},
			func() string {
				var ks []string
				for k, v := range ts {
					ks = append(ks, k.String()+digest(v))
				}
				sort.Strings(ks)
				return strings.Join(ks, ";")
			}
	}})
	out = append(out, scenario{"VDR: 2 x Validate on one Resolved whose required / dependentRequired / dependencies lists have spare capacity, each instance triggering a different dependency", func() ([]func() string, func() string) {
		s, rs := mustResolve(`{"required":["a","b","c"],"dependentRequired":{"x":["p"],"y":["q","r","s"]},"properties":{"o":{"required":["a","b","c","d","e"],"dependentRequired":{"x":["p","q","r"],"y":["q"]}},
			"d7":{"$ref":"http://h/d7.json"}},"$defs":{"d7":{"$schema":"http://json-schema.org/draft-07/schema#","$id":"http://h/d7.json","required":["a","b","c"],"dependencies":{"x":["p"],"y":["q","r","s"]}}}}`, nil)
		i1 := decode(`{"a":1,"b":1,"c":1,"x":1,"p":1,"o":{"a":1,"b":1,"c":1,"d":1,"e":1,"x":1,"p":1,"q":1,"r":1},"d7":{"a":1,"b":1,"c":1,"x":1,"p":1}}`)
		i2 := decode(`{"a":1,"b":1,"c":1,"y":1,"q":1,"r":1,"s":1,"o":{"a":1,"b":1,"c":1,"d":1,"e":1,"y":1,"q":1},"d7":{"a":1,"b":1,"c":1,"y":1,"q":1,"r":1,"s":1}}`)
		i3 := decode(`{"a":1,"b":1,"c":1,"x":1,"o":{"a":1,"b":1,"c":1,"d":1,"e":1}}`) // invalid: x without p
		return []func() string{
			func() string { return verdict(rs, i1) },
			func() string { return verdict(rs, i2) },
			func() string { return verdict(rs, i3) },
		}, func() string { return digest(s) + digest(i1) + digest(i2) + digest(i3) }
	}})
	out = append(out, scenario{"MIX: 3 x Validate on one Resolved whose root (2020-12) refers to a Loader document that declares draft-07", func() ([]func() string, func() string) {
		s := cachedSchema(`{"$id":"http://h/root.json","prefixItems":[{"type":"integer"}],"properties":{"old":{"$ref":"old.json"},"n":{"type":"integer"}},"dependentRequired":{"n":["old"]},"unevaluatedProperties":false,"unevaluatedItems":false}`)
		load := func(u *url.URL) (*jsonschema.Schema, error) {
			var d jsonschema.Schema
			if err := json.Unmarshal([]byte(`{"$schema":"http://json-schema.org/draft-07/schema#","items":[{"type":"string"}],"additionalItems":false,"dependencies":{"a":["b"]},"properties":{"a":{"items":[{"type":"integer"}]}}}`), &d); err != nil {
				return nil, err
			}
			return &d, nil
		}
		rs, err := s.Resolve(&jsonschema.ResolveOptions{Loader: load})
		if err != nil {
			panic(err)
		}
		is := []any{decode(`{"old":{"a":[1,"x"],"b":1},"n":1}`), decode(`["x"]`), decode(`{"n":1}`), decode(`{"old":["s",1]}`)}
		var bs []func() string
		for _, in := range is[:3] {
			in := in
			bs = append(bs, func() string { return verdict(rs, in) + verdict(rs, is[3]) })
		}
		return bs, func() string { return digest(s) }
	}})
	out = append(out, scenario{"VV-cold: Resolve once, then the first two Validate/ApplyDefaults calls on the cold Resolved", func() ([]func() string, func() string) {
		s, rs := mustResolve(`{"required":["r1","r2"],"properties":{"r1":{"default":1},"r2":{"default":2},"o":{"default":3},"p":{"pattern":"^a","uniqueItems":true}},"patternProperties":{"^q":{"required":["z"]}}}`, nil)
		var a, b any = decode(`{}`), decode(`{"o":0}`)
		apply := func(p *any) func() string {
			return func() string {
				if err := rs.ApplyDefaults(p); err != nil {
					return "error"
				}
				j, _ := json.Marshal(*p)
				return string(j) + " " + verdict(rs, *p)
			}
		}
		return []func() string{apply(&a), apply(&b)}, func() string { return digest(s) }
	}})
	return out
}

// sequentialResults runs the bodies one after another in every order and
// returns the per-thread results; ok is false if they depend on the order.
func sequentialResults(sc scenario) ([]string, string, bool) {
	bodies, _ := sc.setup()
	n := len(bodies)
	perm := make([]int, n)
	for i := range perm {
		perm[i] = i
	}
	var ref []string
	var refShared string
	ok := true
	var rec func(k int)
	rec = func(k int) {
		if k == n {
			bs, shared := sc.setup()
			before := shared()
			res := make([]string, n)
			for _, i := range perm {
				res[i] = bs[i]()
			}
			if shared() != before {
				ok = false
			}
			if ref == nil {
				ref, refShared = res, before
			} else if strings.Join(res, "\x00") != strings.Join(ref, "\x00") {
				ok = false
			}
			return
		}
		for i := k; i < n; i++ {
			perm[k], perm[i] = perm[i], perm[k]
			rec(k + 1)
			perm[k], perm[i] = perm[i], perm[k]
		}
	}
	rec(0)
	return ref, refShared, ok
}

// digest renders the shared inputs structurally (no addresses): schema trees
// through their exported fields, instances through encoding/json.
// scribbleOwn edits every subschema reachable from a result its caller owns (a caller may customise
// what For returned): if a node is shared with the supplied TypeSchemas or with another caller's
// result, the shared-input digest or the other result changes.
func scribbleOwn(s *jsonschema.Schema, tag string) {
	if s == nil {
		return
	}
	s.Description = tag
	for _, c := range s.Properties {
		scribbleOwn(c, tag)
	}
	scribbleOwn(s.Items, tag)
	scribbleOwn(s.AdditionalProperties, tag)
}

func digest(x any) string {
	switch v := x.(type) {
	case *jsonschema.Schema:
		return fmt.Sprintf("%+v", schemaDigest(v, 0))
	}
	b, err := json.Marshal(x)
	if err != nil {
		return fmt.Sprintf("%#v", x)
	}
	return string(b)
}

func schemaDigest(s *jsonschema.Schema, depth int) any {
	if s == nil || depth > 12 {
		return nil
	}
	v := reflect.ValueOf(s).Elem()
	out := make([]any, 0, v.NumField())
	for i := 0; i < v.NumField(); i++ {
		f := v.Field(i)
		switch x := f.Interface().(type) {
		case *jsonschema.Schema:
			out = append(out, schemaDigest(x, depth+1))
		case []*jsonschema.Schema:
			for _, c := range x {
				out = append(out, schemaDigest(c, depth+1))
			}
			out = append(out, len(x), x == nil)
		case map[string]*jsonschema.Schema:
			ks := make([]string, 0, len(x))
			for k := range x {
				ks = append(ks, k)
			}
			sort.Strings(ks)
			for _, k := range ks {
				out = append(out, k, schemaDigest(x[k], depth+1))
			}
			out = append(out, x == nil)
		case []string:
			// the spare capacity belongs to the owner of the slice as well: a callee that appends to
			// (or shifts within) a caller's slice writes there
			out = append(out, x[:cap(x)], len(x), x == nil)
		default:
			if f.Kind() == reflect.Pointer && !f.IsNil() {
				out = append(out, f.Elem().Interface())
			} else {
				out = append(out, f.Interface())
			}
		}
	}
	return out
}
