#!/bin/bash
# Builds the framework from files on disk only and warms the Go build cache.
export GOFLAGS=-mod=mod GOPROXY=off GOSUMDB=off GOTOOLCHAIN=local
cd "$(dirname "$0")" || exit 2
mkdir -p .work evidence replays bin
cp /repo/go.sum go.sum 2>/dev/null
go build -o bin/vf ./cmd/vf || exit 2
go build -o bin/instr ./cmd/instr || exit 2
# warm the build cache for the instrumented and race builds
./bin/instr -mode env -out .work/setup-env >/dev/null && go build -tags verif -overlay .work/setup-env/overlay.json -o .work/setup-vf-env ./cmd/vf
./bin/instr -mode sched -out .work/setup-sched >/dev/null && go build -tags "verif sched" -overlay .work/setup-sched/overlay.json -o .work/setup-vf-sched ./cmd/vf
go build -race -o .work/setup-vf-race ./cmd/vf
rm -rf .work/setup-*
echo "setup ok"
