#!/bin/bash
# Builds the framework from files on disk only and warms the Go build cache.
export GOFLAGS=-mod=mod GOPROXY=off GOSUMDB=off GOTOOLCHAIN=local
cd "$(dirname "$0")" || exit 2
mkdir -p .work evidence replays bin
cp /repo/go.sum go.sum 2>/dev/null
go build -o bin/vf ./cmd/vf || exit 2
[ -d cmd/instr ] && { go build -o bin/instr ./cmd/instr || exit 2; }
echo "setup ok"
